#!/bin/bash
# Demonstrates (or, on a repaired tree, shows the absence of) the dictionary-filter false negative on the REAL
# pkg/filter/dictionary_filter.go: the file is copied verbatim into a scratch module; the only change is that the import
# path of pkg/pb/v1 (which needs generated protobuf code absent from this tree) is replaced by the leaf package it aliases
# (pkg/pb/v1/valuetype; pbv1.ValueType = valuetype.ValueType). Usage: run.sh [repo-root]
set -e
ROOT=${1:-/repo}
D=$(mktemp -d /tmp/c08demo.XXXXXX)
trap 'rm -rf $D' EXIT
mkdir -p $D/filter
sed 's#pbv1 "github.com/apache/skywalking-banyandb/pkg/pb/v1"#pbv1 "github.com/apache/skywalking-banyandb/pkg/pb/v1/valuetype"#' $ROOT/pkg/filter/dictionary_filter.go > $D/filter/dictionary_filter.go
cp "$(dirname "$0")/demo_test.go.txt" $D/filter/demo_test.go
cat > $D/go.mod <<EOM
module c08demo
go 1.25.13
require github.com/apache/skywalking-banyandb v0.0.0
replace github.com/apache/skywalking-banyandb => $ROOT
EOM
cp $ROOT/go.sum $D/go.sum
cd $D && GOFLAGS=-mod=mod GOPROXY=off go test -count=1 -vet=off ./filter/ 2>&1 | tail -15
