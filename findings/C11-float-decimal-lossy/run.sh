#!/bin/bash
# Injects demo_test.go.txt into the real package pkg/encoding with `go test -overlay` (nothing is written to the repo).
# Usage: run.sh [repo-root]
ROOT=${1:-/repo}
D=$(mktemp -d /tmp/c11float.XXXXXX); trap 'rm -rf $D' EXIT
cp "$(dirname "$0")/demo_test.go.txt" $D/zz_demo_test.go
printf '{"Replace":{"%s/pkg/encoding/zz_demo_test.go":"%s/zz_demo_test.go"}}' $ROOT $D > $D/ov.json
cd $ROOT && GOFLAGS=-mod=mod GOPROXY=off go test -count=1 -vet=off -timeout 120s -overlay $D/ov.json -run TestFloatDecimalCodecIsLosslessOrRefuses ./pkg/encoding/ 2>&1 | tail -6
