#!/bin/bash
# Demonstrates (or, on a repaired tree, shows the absence of) the limit/offset window restart of the row-path measure
# limitIterator on the REAL code: the declarations `type limitIterator`, `newLimitIterator` and `(*limitIterator).Next`
# are extracted verbatim (by line ranges found with grep) from pkg/query/logical/measure/measure_plan.go into a scratch
# package; the only substitution is the interface type executor.MIterator -> a local interface with the same Next() bool
# (the real one also has Current/Close over generated protobuf types that are absent from this tree).
# Takes ~30-60 s: the counter only wraps after 2^32 skipped rows. Usage: run.sh [repo-root]
set -e
ROOT=${1:-/repo}
F=$ROOT/pkg/query/logical/measure/measure_plan.go
D=$(mktemp -d /tmp/c09demo.XXXXXX)
trap 'rm -rf $D' EXIT
{
  echo "package demo"
  echo "type mIterator interface{ Next() bool }"
  awk '/^type limitIterator struct/,/^}/' $F
  awk '/^func newLimitIterator\(/,/^}/' $F
  awk '/^func \(l \*limitIterator\) Next\(\) bool/,/^}/' $F
} | sed 's/executor\.MIterator/mIterator/g' > $D/extract.go
cp "$(dirname "$0")/demo_test.go.txt" $D/demo_test.go
printf 'module demo\ngo 1.23\n' > $D/go.mod
cd $D && GOFLAGS=-mod=mod GOPROXY=off go test -count=1 -vet=off -timeout 600s . 2>&1 | tail -8
