module c06demo

go 1.23
