package c06demo

// Standalone demonstration of the defect found by the obligation
// banyand/internal/storage.segmentController.create/ensures:contains-high on the tree before the fix.
// banyand/internal/storage does not compile in the sandbox (generated protobuf code is absent), so the arithmetic core
// of segmentController.create is copied verbatim (loop, `next` selection, end choice) over a plain segment record.
// `createOld` is the code before the fix, `createNew` the code after it.

import "testing"

type seg struct{ Start, End int64 } // half-open [Start, End), "days"

func (s seg) contains(t int64) bool { return s.Start <= t && t < s.End }

const num = 3 // SegmentInterval.Num after an options update 1 -> 3 (allowed by updateOptions)

func standard(t int64) int64 { return t - t%num } // grid of 3-day buckets
func nextTime(t int64) int64 { return t + num }

func createOld(lst []seg, ts int64) seg {
	for i := len(lst) - 1; i >= 0; i-- {
		if lst[i].contains(ts) {
			return lst[i]
		}
	}
	start := ts
	alignedStart := standard(start)
	stdEnd := nextTime(alignedStart)
	start = alignedStart
	var next *seg
	for i := range lst {
		s := lst[i]
		if s.contains(start) {
			start = s.End
			continue
		}
		if next == nil && s.Start > start {
			next = &lst[i]
		}
	}
	var end int64
	if next != nil && next.Start < stdEnd {
		end = next.Start
	} else {
		end = stdEnd
	}
	return seg{start, end}
}

func createNew(lst []seg, ts int64) seg {
	for i := len(lst) - 1; i >= 0; i-- {
		if lst[i].contains(ts) {
			return lst[i]
		}
	}
	start := ts
	alignedStart := standard(start)
	stdEnd := nextTime(alignedStart)
	start = alignedStart
	var next *seg
	for i := range lst {
		s := lst[i]
		if s.contains(start) || (s.Start > start && !(s.End > ts)) {
			start = s.End
			continue
		}
		if next == nil && s.Start > start {
			next = &lst[i]
		}
	}
	var end int64
	if next != nil && next.Start < stdEnd {
		end = next.Start
	} else {
		end = stdEnd
	}
	return seg{start, end}
}

// One legacy daily segment [28,29) inside the new 3-day bucket [27,30), nothing on day 27 or 29.
// A write for day 29 must be filed under a segment that contains day 29.
func TestOldMisfiles(t *testing.T) {
	lst := []seg{{28, 29}}
	got := createOld(lst, 29)
	if got.contains(29) {
		t.Fatalf("old code unexpectedly correct: %+v", got)
	}
	t.Logf("before the fix: timestamp 29 is filed under segment %+v, which does not contain it", got)
}

func TestNewContains(t *testing.T) {
	for _, lst := range [][]seg{{{28, 29}}, {}, {{26, 28}}, {{29, 31}}, {{27, 28}, {29, 30}}} {
		for ts := int64(27); ts < 30; ts++ {
			got := createNew(lst, ts)
			if !got.contains(ts) {
				t.Fatalf("lst=%v ts=%d: %+v does not contain ts", lst, ts, got)
			}
			for _, s := range lst {
				if s != got && s.Start < got.End && got.Start < s.End {
					t.Fatalf("lst=%v ts=%d: %+v overlaps %+v", lst, ts, got, s)
				}
			}
		}
	}
}
