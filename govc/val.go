package main

import (
	"fmt"
	"go/types"
	"math/big"
	"sort"
	"strings"
)

type Mode int

const (
	ModeInt Mode = iota
	ModeBV
)

// ---------------------------------------------------------------------------------------------
// Symbolic values

type Val interface{}

type (
	// Scalar: bool, integers, floats (bit pattern in bv mode), strings (sort Str), interfaces / errors / funcs /
	// maps / chans (an Int reference, 0 = nil).
	Scalar struct {
		T  Term
		Ty types.Type
	}
	// Const is an untyped integer constant of the spec language.
	Const struct{ V *big.Int }
	// Ptr points at element Idx of heap object Ref (Ref = 0 is nil). Elem is the pointee type.
	Ptr struct {
		Ref, Idx Term
		Elem     types.Type
	}
	// Interior is the address of a struct field inside heap object Ref (&x.f). It is not a modelled pointer: it can only be
	// handed to a callee that is called by contract, whose clauses reach the OWNING object through unbox(p, Owner).
	Interior struct {
		Ref, Idx Term
		Prefix   string
		Elem     types.Type
	}
	// Slice is a Go slice header over heap object Ref.
	Slice struct {
		Ref, Off, Len, Cap Term
		Elem               types.Type
	}
	// Seq is a heap-independent view of a sequence (spec level): contents Arr[Off .. Off+Len).
	Seq struct {
		Arr, Off, Len Term
		Elem          types.Type
	}
	Struct struct {
		Ty types.Type
		F  []Val
	}
	Tuple struct{ Vs []Val }
	// Opaque stands for a component the subset does not model (mutex, channel, ...).
	Opaque struct{ Ty types.Type }
	// ArrayV is a fixed-size Go array living in heap object Ref at indices [0,N).
	ArrayV struct {
		Ref  Term
		N    int64
		Elem types.Type
	}
	// FuncRef is a statically known function / closure value.
	FuncRef struct {
		Lit  interface{} // *ast.FuncLit
		Obj  *types.Func
		Recv Val
		Env  *State
	}
)

type unsupported struct {
	msg string
}

func (u unsupported) Error() string { return u.msg }

func unsupp(f string, a ...interface{}) {
	panic(unsupported{fmt.Sprintf(f, a...)})
}

// ---------------------------------------------------------------------------------------------
// Sorts

func (c *Ctx) idxSort() string {
	if c.mode == ModeBV {
		return bvSort(64)
	}
	return SInt
}

func intInfo(b *types.Basic) (width int, signed bool, ok bool) {
	switch b.Kind() {
	case types.Int8:
		return 8, true, true
	case types.Int16:
		return 16, true, true
	case types.Int32:
		return 32, true, true
	case types.Int64, types.Int:
		return 64, true, true
	case types.Uint8:
		return 8, false, true
	case types.Uint16:
		return 16, false, true
	case types.Uint32:
		return 32, false, true
	case types.Uint64, types.Uint, types.Uintptr:
		return 64, false, true
	case types.UntypedInt, types.UntypedRune:
		return 64, true, true
	}
	return 0, false, false
}

func isIntType(t types.Type) bool {
	if t == nil {
		return false
	}
	b, ok := under(t).(*types.Basic)
	if !ok {
		return false
	}
	_, _, ok = intInfo(b)
	return ok
}

func isFloatType(t types.Type) bool {
	b, ok := under(t).(*types.Basic)
	return ok && (b.Kind() == types.Float64 || b.Kind() == types.Float32 || b.Kind() == types.UntypedFloat)
}

func isBoolType(t types.Type) bool {
	b, ok := under(t).(*types.Basic)
	return ok && (b.Kind() == types.Bool || b.Kind() == types.UntypedBool)
}

func isStringType(t types.Type) bool {
	b, ok := under(t).(*types.Basic)
	return ok && (b.Kind() == types.String || b.Kind() == types.UntypedString)
}

// scalarSort gives the SMT sort of a scalar-like Go type; "" if the type is not scalar-like.
func (c *Ctx) scalarSort(t types.Type) string {
	if isTimeType(t) {
		return c.idxSort()
	}
	switch u := under(t).(type) {
	case *types.Basic:
		if w, _, ok := intInfo(u); ok {
			if c.mode == ModeBV {
				return bvSort(w)
			}
			return SInt
		}
		switch u.Kind() {
		case types.Bool, types.UntypedBool:
			return SBool
		case types.String, types.UntypedString:
			return SStr
		case types.Float64, types.UntypedFloat:
			if c.mode == ModeBV {
				return bvSort(64)
			}
			return SF64
		case types.Float32:
			if c.mode == ModeBV {
				return bvSort(32)
			}
			return SF64
		case types.UnsafePointer, types.UntypedNil:
			return SInt
		}
	case *types.Interface, *types.Signature, *types.Map, *types.Chan:
		return SInt
	case *types.TypeParam:
		return SInt
	}
	return ""
}

func typeRange(t types.Type) (lo, hi *big.Int, ok bool) {
	b, isB := under(t).(*types.Basic)
	if !isB {
		return nil, nil, false
	}
	w, signed, isInt := intInfo(b)
	if !isInt {
		return nil, nil, false
	}
	if signed {
		return new(big.Int).Neg(pow2(w - 1)), new(big.Int).Sub(pow2(w-1), big.NewInt(1)), true
	}
	return big.NewInt(0), new(big.Int).Sub(pow2(w), big.NewInt(1)), true
}

// ---------------------------------------------------------------------------------------------
// Family names: every heap leaf lives in a "family" = SMT array (Array Int (Array IDX leaf)).

func typeKey(t types.Type) string {
	s := types.TypeString(t, func(p *types.Package) string { return p.Name() })
	// drop type-argument / type-parameter lists so that a generic type and its instantiations share one key
	s = typeArgsRe.ReplaceAllString(s, "")
	s = strings.ReplaceAll(s, " ", "_")
	return s
}

func smtIdent(s string) string {
	var b strings.Builder
	for _, r := range s {
		switch {
		case r >= 'a' && r <= 'z', r >= 'A' && r <= 'Z', r >= '0' && r <= '9', r == '_', r == '.', r == '!':
			b.WriteRune(r)
		case r == '#':
			b.WriteString("$")
		case r == '*':
			b.WriteString("ptr.")
		case r == '[':
			b.WriteString("sl")
		case r == ']':
			b.WriteString(".")
		default:
			b.WriteString("_")
		}
	}
	return b.String()
}

// ---------------------------------------------------------------------------------------------
// Generic operations over Vals

// fresh creates an unconstrained value of Go type t; range / well-formedness facts are appended to *facts.
func (c *Ctx) fresh(t types.Type, hint string, facts *[]Term) Val {
	if t == nil {
		unsupp("fresh of nil type (%s)", hint)
	}
	switch u := shapeOf(t).(type) {
	case *types.Basic, *types.Interface, *types.Signature, *types.Map, *types.Chan, *types.TypeParam:
		srt := c.scalarSort(t)
		if srt == "" {
			unsupp("unsupported basic type %s", t)
		}
		x := c.declare(hint, srt)
		if srt == SInt {
			if lo, hi, ok := typeRange(t); ok {
				*facts = append(*facts, app(SBool, "<=", IntLit(SInt, lo), x), app(SBool, "<=", x, IntLit(SInt, hi)))
			} else if !isTimeType(t) {
				// reference-like: non-negative
				*facts = append(*facts, app(SBool, "<=", Term{"0", SInt}, x))
			}
			c.noteUnsigned(x, t)
		}
		return Scalar{x, t}
	case *types.Pointer:
		r := c.declare(hint+"#ref", SInt)
		i := c.declare(hint+"#idx", c.idxSort())
		*facts = append(*facts, app(SBool, "<=", Term{"0", SInt}, r))
		return Ptr{r, i, u.Elem()}
	case *types.Slice:
		is := c.idxSort()
		s := Slice{c.declare(hint+"#ref", SInt), c.declare(hint+"#off", is), c.declare(hint+"#len", is), c.declare(hint+"#cap", is), u.Elem()}
		*facts = append(*facts, c.sliceWF(s)...)
		return s
	case *types.Struct:
		sv := Struct{Ty: t}
		for i := 0; i < u.NumFields(); i++ {
			f := u.Field(i)
			if c.opaqueType(f.Type()) {
				sv.F = append(sv.F, Opaque{f.Type()})
				continue
			}
			sv.F = append(sv.F, c.fresh(f.Type(), hint+"."+f.Name(), facts))
		}
		return sv
	case *types.Array:
		r := c.declare(hint+"#aref", SInt)
		*facts = append(*facts, app(SBool, "<", Term{"0", SInt}, r))
		return ArrayV{r, u.Len(), u.Elem()}
	case *types.Tuple:
		tv := Tuple{}
		for i := 0; i < u.Len(); i++ {
			tv.Vs = append(tv.Vs, c.fresh(u.At(i).Type(), fmt.Sprintf("%s.%d", hint, i), facts))
		}
		return tv
	}
	unsupp("fresh: unsupported type %s", t)
	return nil
}

// opaqueType reports component types that are carried around but never modelled.
func (c *Ctx) opaqueType(t types.Type) bool {
	s := types.TypeString(t, nil)
	switch s {
	case "sync.Mutex", "sync.RWMutex", "sync.WaitGroup", "sync.Once", "sync.Cond", "sync/atomic.Value", "sync.Map":
		return true
	}
	if strings.HasPrefix(s, "sync/atomic.") || strings.HasPrefix(s, "context.") {
		return true
	}
	if n, ok := t.(*types.Named); ok {
		if td := c.typeDecl(n); td != nil && td.Opaque {
			// "opt transparent T ...": this function's contract looks inside a type the package otherwise keeps opaque
			if c.fc != nil {
				for _, tn := range strings.Fields(c.fc.Opts["transparent"]) {
					if tn == n.Obj().Name() {
						return false
					}
				}
			}
			return true
		}
	}
	if !validType(t) {
		return true
	}
	return false
}

func validType(t types.Type) bool {
	if t == nil {
		return false
	}
	if b, ok := t.(*types.Basic); ok && b.Kind() == types.Invalid {
		return false
	}
	switch u := t.(type) {
	case *types.Pointer:
		return validType(u.Elem())
	case *types.Slice:
		return validType(u.Elem())
	case *types.Array:
		return validType(u.Elem())
	}
	if t.Underlying() == nil {
		return false
	}
	if b, ok := t.Underlying().(*types.Basic); ok && b.Kind() == types.Invalid {
		return false
	}
	return true
}

func (c *Ctx) intLit(sort string, v int64) Term { return IntLit64(sort, v) }

func (c *Ctx) idx(v int64) Term { return IntLit64(c.idxSort(), v) }

// index-sort arithmetic helpers
func (c *Ctx) iadd(a, b Term) Term {
	if c.mode == ModeBV {
		return app(a.Sort, "bvadd", a, b)
	}
	if b.S == "0" {
		return a
	}
	if a.S == "0" {
		return b
	}
	return app(SInt, "+", a, b)
}

func (c *Ctx) isub(a, b Term) Term {
	if c.mode == ModeBV {
		return app(a.Sort, "bvsub", a, b)
	}
	if b.S == "0" {
		return a
	}
	return app(SInt, "-", a, b)
}

func (c *Ctx) ile(a, b Term) Term {
	if c.mode == ModeBV {
		return app(SBool, "bvsle", a, b)
	}
	return app(SBool, "<=", a, b)
}

func (c *Ctx) ilt(a, b Term) Term {
	if c.mode == ModeBV {
		return app(SBool, "bvslt", a, b)
	}
	return app(SBool, "<", a, b)
}

func (c *Ctx) sliceWF(s Slice) []Term {
	z := c.idx(0)
	fs := []Term{
		app(SBool, "<=", Term{"0", SInt}, s.Ref),
		c.ile(z, s.Off), c.ile(z, s.Len), c.ile(s.Len, s.Cap),
		Implies(Eq(s.Ref, Term{"0", SInt}), And(Eq(s.Len, z), Eq(s.Cap, z), Eq(s.Off, z))),
	}
	// objects are smaller than 2^60 elements (keeps off+cap from wrapping in bv mode, and lengths inside int in int mode)
	lim := IntLit(c.idxSort(), pow2(60))
	fs = append(fs, c.ile(s.Off, lim), c.ile(s.Cap, lim))
	return fs
}

func (c *Ctx) zero(t types.Type) Val {
	if isTimeType(t) {
		return Scalar{c.timeZero(), t}
	}
	switch u := shapeOf(t).(type) {
	case *types.Basic, *types.Interface, *types.Signature, *types.Map, *types.Chan, *types.TypeParam:
		srt := c.scalarSort(t)
		switch {
		case srt == SBool:
			return Scalar{TFalse, t}
		case srt == SInt || isBV(srt):
			return Scalar{IntLit64(srt, 0), t}
		case srt == SStr:
			return Scalar{c.emptyStr(), t}
		case srt == SF64:
			return Scalar{c.f64zero(), t}
		}
	case *types.Pointer:
		return Ptr{Term{"0", SInt}, c.idx(0), u.Elem()}
	case *types.Slice:
		return Slice{Term{"0", SInt}, c.idx(0), c.idx(0), c.idx(0), u.Elem()}
	case *types.Struct:
		sv := Struct{Ty: t}
		for i := 0; i < u.NumFields(); i++ {
			f := u.Field(i)
			if c.opaqueType(f.Type()) {
				sv.F = append(sv.F, Opaque{f.Type()})
				continue
			}
			sv.F = append(sv.F, c.zero(f.Type()))
		}
		return sv
	}
	unsupp("zero: unsupported type %s", t)
	return nil
}

func (c *Ctx) iteVal(cond Term, a, b Val) Val {
	if cond.S == "true" {
		return a
	}
	if cond.S == "false" {
		return b
	}
	switch x := a.(type) {
	case boxed:
		y, ok := b.(boxed)
		if !ok {
			unsupp("ite: kind mismatch")
		}
		if x.Ref.S == y.Ref.S {
			return x
		}
		return boxed{Ite(cond, x.Ref, y.Ref)}
	case Scalar:
		y, ok := b.(Scalar)
		if !ok {
			unsupp("ite: kind mismatch")
		}
		if x.T.S == y.T.S {
			return x
		}
		return Scalar{Ite(cond, x.T, y.T), x.Ty}
	case Ptr:
		y := b.(Ptr)
		return Ptr{Ite(cond, x.Ref, y.Ref), Ite(cond, x.Idx, y.Idx), x.Elem}
	case Slice:
		y := b.(Slice)
		return Slice{Ite(cond, x.Ref, y.Ref), Ite(cond, x.Off, y.Off), Ite(cond, x.Len, y.Len), Ite(cond, x.Cap, y.Cap), x.Elem}
	case Seq:
		y := b.(Seq)
		return Seq{Ite(cond, x.Arr, y.Arr), Ite(cond, x.Off, y.Off), Ite(cond, x.Len, y.Len), x.Elem}
	case Struct:
		y := b.(Struct)
		r := Struct{Ty: x.Ty}
		for i := range x.F {
			r.F = append(r.F, c.iteVal(cond, x.F[i], y.F[i]))
		}
		return r
	case Tuple:
		y := b.(Tuple)
		r := Tuple{}
		for i := range x.Vs {
			r.Vs = append(r.Vs, c.iteVal(cond, x.Vs[i], y.Vs[i]))
		}
		return r
	case Opaque:
		return x
	case ArrayV:
		y := b.(ArrayV)
		return ArrayV{Ite(cond, x.Ref, y.Ref), x.N, x.Elem}
	case FuncRef:
		return x
	case Interior:
		if y, ok := b.(Interior); ok && y.Prefix == x.Prefix {
			return Interior{Ite(cond, x.Ref, y.Ref), Ite(cond, x.Idx, y.Idx), x.Prefix, x.Elem}
		}
	case nil:
		return b
	}
	unsupp("ite: unsupported value kind %T", a)
	return nil
}

func sameVal(a, b Val) bool {
	switch x := a.(type) {
	case Scalar:
		y, ok := b.(Scalar)
		return ok && x.T.S == y.T.S
	case Ptr:
		y, ok := b.(Ptr)
		return ok && x.Ref.S == y.Ref.S && x.Idx.S == y.Idx.S
	case Slice:
		y, ok := b.(Slice)
		return ok && x.Ref.S == y.Ref.S && x.Off.S == y.Off.S && x.Len.S == y.Len.S && x.Cap.S == y.Cap.S
	case Struct:
		y, ok := b.(Struct)
		if !ok || len(x.F) != len(y.F) {
			return false
		}
		for i := range x.F {
			if !sameVal(x.F[i], y.F[i]) {
				return false
			}
		}
		return true
	case Tuple:
		y, ok := b.(Tuple)
		if !ok || len(x.Vs) != len(y.Vs) {
			return false
		}
		for i := range x.Vs {
			if !sameVal(x.Vs[i], y.Vs[i]) {
				return false
			}
		}
		return true
	case Opaque:
		return true
	case ArrayV:
		y, ok := b.(ArrayV)
		return ok && x.Ref.S == y.Ref.S
	case FuncRef:
		return true
	case nil:
		return b == nil
	}
	return false
}

// eqVal: Go == on comparable values (pointer identity, struct field-wise).
func (c *Ctx) eqVal(a, b Val) Term {
	switch x := a.(type) {
	case Scalar:
		switch y := b.(type) {
		case Scalar:
			return Eq(x.T, y.T)
		case Const:
			return Eq(x.T, IntLit(x.T.Sort, y.V))
		case Ptr:
			return Eq(x.T, y.Ref) // interface vs pointer nil comparisons
		}
	case Const:
		switch y := b.(type) {
		case Scalar:
			return Eq(IntLit(y.T.Sort, x.V), y.T)
		case Const:
			if x.V.Cmp(y.V) == 0 {
				return TTrue
			}
			return TFalse
		}
	case Ptr:
		switch y := b.(type) {
		case Ptr:
			return And(Eq(x.Ref, y.Ref), Or(Eq(x.Ref, Term{"0", SInt}), Eq(x.Idx, y.Idx)))
		case Scalar:
			return Eq(x.Ref, y.T)
		}
	case Struct:
		y := b.(Struct)
		var ts []Term
		for i := range x.F {
			if _, op := x.F[i].(Opaque); op {
				continue
			}
			ts = append(ts, c.eqVal(x.F[i], y.F[i]))
		}
		return And(ts...)
	case Slice:
		// only comparison with nil is legal in Go; spec-level == on slices is handled by the spec evaluator.
		if y, ok := b.(Slice); ok {
			return And(Eq(x.Ref, y.Ref), Eq(x.Off, y.Off), Eq(x.Len, y.Len), Eq(x.Cap, y.Cap))
		}
	}
	unsupp("eq: unsupported operands %T %T", a, b)
	return TFalse
}

// ---------------------------------------------------------------------------------------------
// Heap access. A location is (family prefix, ref, idx); leaves live in families named prefix + path.

func (c *Ctx) elemPrefix(elem types.Type) string { return smtIdent(typeKey(elem)) }

func (c *Ctx) famSort(leaf string) string {
	return arraySort(SInt, arraySort(c.idxSort(), leaf))
}

// heapGet returns the current array for a family in state st (declaring the initial version on first use).
func (c *Ctx) heapGet(st *State, fam, leaf string) Term {
	if t, ok := st.heaps[fam]; ok {
		return t
	}
	return c.heap0(fam, leaf)
}

func (c *Ctx) heap0(fam, leaf string) Term {
	if t, ok := c.heapInit[fam]; ok {
		return t
	}
	t := c.declare("H0_"+fam, c.famSort(leaf))
	c.heapInit[fam] = t
	c.heapLeaf[fam] = leaf
	c.rangeAxiomHeap(t, fam)
	if strings.HasSuffix(fam, "#ref") && c.fc != nil && (c.fc.Opts["fragment"] != "" || c.fc.Opts["entry-refs-bounded"] != "") && c.allocEntry.S != "" {
		// heap well-formedness at entry: a reference stored in the entry heap points at an object that exists at entry
		// (so it cannot alias anything allocated later, e.g. the box of an address-taken local)
		c.raw(fmt.Sprintf("(assert (forall ((r Int) (i %s)) (! (<= (select (select %s r) i) %s) :pattern ((select (select %s r) i)))))",
			c.idxSort(), t.S, c.allocEntry.S, t.S))
	}
	return t
}

// noteFam records the integer range of a leaf family (int mode) before its first use.
func (c *Ctx) noteFam(fam string, t types.Type) {
	if c.mode != ModeInt || c.famHasRange[fam] {
		return
	}
	if lo, hi, ok := typeRange(t); ok {
		c.famRange[fam] = IntLit(SInt, lo).S
		c.famRangeHi[fam] = IntLit(SInt, hi).S
		c.famHasRange[fam] = true
	}
}

func (c *Ctx) readLeaf(st *State, fam, leaf string, ref, idx Term) Term {
	h := c.heapGet(st, fam, leaf)
	return Select(Select(h, ref), idx)
}

func (c *Ctx) writeLeaf(st *State, fam, leaf string, ref, idx, v Term) {
	h := c.heapGet(st, fam, leaf)
	nh := Store(h, ref, Store(Select(h, ref), idx, v))
	st.heaps[fam] = c.name(nh, "H_"+fam)
}

// load reads a value of type t stored at (prefix, ref, idx). Range facts of loaded integers are assumed (Go's
// type system guarantees them); they are conjoined to st.pc.
func (c *Ctx) load(st *State, prefix string, t types.Type, ref, idx Term) Val {
	c.viewGuard(prefix, ref)
	switch u := shapeOf(t).(type) {
	case *types.Basic, *types.Interface, *types.Signature, *types.Map, *types.Chan, *types.TypeParam:
		srt := c.scalarSort(t)
		if srt == "" {
			unsupp("load: unsupported type %s", t)
		}
		c.noteFam(prefix, t)
		v := c.readLeaf(st, prefix, srt, ref, idx)
		if srt == SInt {
			v = c.name(v, "ld")
			if lo, hi, ok := typeRange(t); ok {
				st.assume(c, And(app(SBool, "<=", IntLit(SInt, lo), v), app(SBool, "<=", v, IntLit(SInt, hi))))
			} else if !isTimeType(t) {
				st.assume(c, app(SBool, "<=", Term{"0", SInt}, v))
			}
			c.noteUnsigned(v, t)
		}
		return Scalar{v, t}
	case *types.Pointer:
		r := c.name(c.readLeaf(st, prefix+"#ref", SInt, ref, idx), "ldp")
		i := c.readLeaf(st, prefix+"#idx", c.idxSort(), ref, idx)
		st.assume(c, And(app(SBool, "<=", Term{"0", SInt}, r), app(SBool, "<=", r, st.alloc)))
		return Ptr{r, i, u.Elem()}
	case *types.Slice:
		is := c.idxSort()
		if c.declBool && c.noName == 0 {
			// one name per (heap version, location): repeated reads of the same header share their components, and the
			// type invariant of the header is asserted once, globally, instead of once per read into the path condition
			key := "sl|" + prefix + "|" + ref.S + "|" + idx.S + "|" + c.heapGet(st, prefix+"#ref", SInt).S + "|" + c.heapGet(st, prefix+"#off", is).S + "|" + c.heapGet(st, prefix+"#len", is).S + "|" + c.heapGet(st, prefix+"#cap", is).S
			if v, ok := c.loadCache[key]; ok {
				st.assume(c, app(SBool, "<=", v.(Slice).Ref, st.alloc))
				return v
			}
			s := Slice{
				c.name(c.readLeaf(st, prefix+"#ref", SInt, ref, idx), "lds"),
				c.name(c.readLeaf(st, prefix+"#off", is, ref, idx), "ldo"),
				c.name(c.readLeaf(st, prefix+"#len", is, ref, idx), "ldl"),
				c.name(c.readLeaf(st, prefix+"#cap", is, ref, idx), "ldc"),
				u.Elem(),
			}
			c.raw("(assert " + And(c.sliceWF(s)...).S + ")")
			st.assume(c, app(SBool, "<=", s.Ref, st.alloc))
			if c.loadCache == nil {
				c.loadCache = map[string]Val{}
			}
			c.loadCache[key] = s
			return s
		}
		s := Slice{
			c.name(c.readLeaf(st, prefix+"#ref", SInt, ref, idx), "lds"),
			c.name(c.readLeaf(st, prefix+"#off", is, ref, idx), "ldo"),
			c.name(c.readLeaf(st, prefix+"#len", is, ref, idx), "ldl"),
			c.name(c.readLeaf(st, prefix+"#cap", is, ref, idx), "ldc"),
			u.Elem(),
		}
		st.assume(c, And(c.sliceWF(s)...))
		st.assume(c, app(SBool, "<=", s.Ref, st.alloc))
		return s
	case *types.Struct:
		sv := Struct{Ty: t}
		for i := 0; i < u.NumFields(); i++ {
			f := u.Field(i)
			if c.opaqueType(f.Type()) {
				sv.F = append(sv.F, Opaque{f.Type()})
				continue
			}
			sv.F = append(sv.F, c.load(st, prefix+"."+f.Name(), f.Type(), ref, idx))
		}
		return sv
	case *types.Array:
		// nested fixed array inside a struct/array element: not modelled
		unsupp("load: nested fixed array %s", t)
	}
	unsupp("load: unsupported type %s", t)
	return nil
}

func (c *Ctx) store(st *State, prefix string, t types.Type, ref, idx Term, v Val) {
	c.viewGuard(prefix, ref)
	switch u := shapeOf(t).(type) {
	case *types.Basic, *types.Interface, *types.Signature, *types.Map, *types.Chan, *types.TypeParam:
		srt := c.scalarSort(t)
		sv := c.asScalar(v, t)
		c.noteFam(prefix, t)
		c.writeLeaf(st, prefix, srt, ref, idx, sv.T)
		return
	case *types.Pointer:
		p, ok := v.(Ptr)
		if !ok {
			if s, isS := v.(Scalar); isS { // nil
				p = Ptr{s.T, c.idx(0), u.Elem()}
			} else {
				unsupp("store: pointer expected, got %T", v)
			}
		}
		c.writeLeaf(st, prefix+"#ref", SInt, ref, idx, p.Ref)
		c.writeLeaf(st, prefix+"#idx", c.idxSort(), ref, idx, p.Idx)
		return
	case *types.Slice:
		s, ok := v.(Slice)
		if !ok {
			unsupp("store: slice expected, got %T", v)
		}
		is := c.idxSort()
		c.writeLeaf(st, prefix+"#ref", SInt, ref, idx, s.Ref)
		c.writeLeaf(st, prefix+"#off", is, ref, idx, s.Off)
		c.writeLeaf(st, prefix+"#len", is, ref, idx, s.Len)
		c.writeLeaf(st, prefix+"#cap", is, ref, idx, s.Cap)
		return
	case *types.Struct:
		sv, ok := v.(Struct)
		if !ok {
			unsupp("store: struct expected, got %T", v)
		}
		for i := 0; i < u.NumFields(); i++ {
			f := u.Field(i)
			if _, op := sv.F[i].(Opaque); op {
				continue
			}
			c.store(st, prefix+"."+f.Name(), f.Type(), ref, idx, sv.F[i])
		}
		return
	}
	unsupp("store: unsupported type %s", t)
}

// leafFamilies lists (family, leaf sort) pairs of type t under prefix.
// viewGuard: an object viewed as raw bytes through unsafe.Pointer may only be accessed at its real type.
func (c *Ctx) viewGuard(prefix string, ref Term) {
	if vt, ok := c.views[ref.S]; ok && prefix != c.elemPrefix(vt) {
		unsupp("element access through an unsafe byte view")
	}
}

func (c *Ctx) leafFamilies(prefix string, t types.Type, out *[][2]string) {
	switch u := shapeOf(t).(type) {
	case *types.Basic, *types.Interface, *types.Signature, *types.Map, *types.Chan, *types.TypeParam:
		if s := c.scalarSort(t); s != "" {
			c.noteFam(prefix, t)
			*out = append(*out, [2]string{prefix, s})
		}
	case *types.Pointer:
		*out = append(*out, [2]string{prefix + "#ref", SInt}, [2]string{prefix + "#idx", c.idxSort()})
	case *types.Slice:
		is := c.idxSort()
		*out = append(*out, [2]string{prefix + "#ref", SInt}, [2]string{prefix + "#off", is}, [2]string{prefix + "#len", is}, [2]string{prefix + "#cap", is})
	case *types.Struct:
		for i := 0; i < u.NumFields(); i++ {
			f := u.Field(i)
			if c.opaqueType(f.Type()) {
				continue
			}
			c.leafFamilies(prefix+"."+f.Name(), f.Type(), out)
		}
		// ghost fields
		if n, ok := t.(*types.Named); ok {
			if td := c.typeDecl(n); td != nil {
				for _, g := range td.Ghost {
					gt := c.resolveTypeText(g.Type)
					c.leafFamilies(prefix+"."+g.Name, gt, out)
				}
			}
		}
	}
}

// zeroRow initialises all leaves of a freshly allocated object to the zero value of t (for every index).
func (c *Ctx) zeroRow(st *State, prefix string, t types.Type, ref Term) {
	var fams [][2]string
	c.leafFamilies(prefix, t, &fams)
	for _, f := range fams {
		var z Term
		switch {
		case f[1] == SBool:
			z = TFalse
		case f[1] == SInt || isBV(f[1]):
			z = IntLit64(f[1], 0)
		case f[1] == SStr:
			z = c.emptyStr()
		case f[1] == SF64:
			z = c.f64zero()
		default:
			unsupp("zeroRow: sort %s", f[1])
		}
		row := Term{"((as const " + arraySort(c.idxSort(), f[1]) + ") " + z.S + ")", arraySort(c.idxSort(), f[1])}
		h := c.heapGet(st, f[0], f[1])
		st.heaps[f[0]] = c.name(Store(h, ref, row), "H_"+f[0])
	}
}

// havocRow replaces all leaves of object ref (type t) by unknown contents.
func (c *Ctx) havocRow(st *State, prefix string, t types.Type, ref Term) {
	var fams [][2]string
	c.leafFamilies(prefix, t, &fams)
	for _, f := range fams {
		row := c.declare("hv_"+f[0], arraySort(c.idxSort(), f[1]))
		h := c.heapGet(st, f[0], f[1])
		st.heaps[f[0]] = c.name(Store(h, ref, row), "H_"+f[0])
	}
}

func (c *Ctx) emptyStr() Term {
	c.needStr()
	return Term{"str.empty", SStr}
}

func (c *Ctx) f64zero() Term {
	c.needF64()
	return Term{"f64.zero", SF64}
}

// alloc returns a fresh object reference.
func (c *Ctx) allocRef(st *State) Term {
	r := c.name(app(SInt, "+", st.alloc, Term{"1", SInt}), "new")
	c.freshRefs[r.S] = true
	st.alloc = r
	return r
}

// ---------------------------------------------------------------------------------------------
// State

type State struct {
	vars   map[types.Object]Val
	heaps  map[string]Term
	alloc  Term
	pc     Term
	ghosts map[string]Val
}

func (s *State) clone() *State {
	n := &State{vars: make(map[types.Object]Val, len(s.vars)), heaps: make(map[string]Term, len(s.heaps)), alloc: s.alloc, pc: s.pc,
		ghosts: make(map[string]Val, len(s.ghosts))}
	for k, v := range s.vars {
		n.vars[k] = v
	}
	for k, v := range s.heaps {
		n.heaps[k] = v
	}
	for k, v := range s.ghosts {
		n.ghosts[k] = v
	}
	return n
}

func (s *State) assume(c *Ctx, t Term) {
	if t.S == "true" {
		return
	}
	s.pc = c.name(And(s.pc, t), "pc")
}

// assumeSoft conjoins a contract clause (invariant, precondition, callee postcondition). Quantified clauses are named
// individually so that cheaper "light" queries can leave them out (dropping a hypothesis is always sound).
func (s *State) assumeSoft(c *Ctx, t Term) {
	if t.S == "true" {
		return
	}
	// a top-level conjunction is assumed clause by clause so that only the quantified conjuncts become droppable
	if strings.HasPrefix(t.S, "(and ") && c.noName == 0 {
		parts := splitTopLevel(t.S[5 : len(t.S)-1])
		if len(parts) > 1 {
			for _, p := range parts {
				s.assumeSoft(c, Term{p, SBool})
			}
			return
		}
	}
	if c.noName == 0 && (strings.Contains(t.S, "(forall") || strings.Contains(t.S, "(exists")) {
		level := 1
		if strings.Contains(t.S, "(exists") {
			level = 2
		}
		sym := c.sym("soft")
		if c.soft == nil {
			c.soft = map[int]int{}
		}
		c.soft[len(c.decls)] = level
		c.decls = append(c.decls, fmt.Sprintf("(define-fun %s () Bool %s)", sym, t.S))
		t = Term{sym, SBool}
	}
	s.pc = c.name(And(s.pc, t), "pc")
}

func (s *State) dead() bool { return s == nil || s.pc.S == "false" }

// merge joins two states whose path conditions are mutually exclusive.
func (c *Ctx) merge(a, b *State) *State {
	if a.dead() {
		return b
	}
	if b.dead() {
		return a
	}
	n := &State{vars: map[types.Object]Val{}, heaps: map[string]Term{}, ghosts: map[string]Val{}}
	cond := a.pc
	n.pc = c.name(Or(a.pc, b.pc), "pc")
	n.alloc = c.nameIfBig(Ite(cond, a.alloc, b.alloc), "alloc")
	for k, va := range a.vars {
		vb, ok := b.vars[k]
		if !ok {
			// declared on one side only (e.g. a return before the declaration): only code reached through that side can
			// name it (deferred calls guarded by their flag), so its value there is the value
			n.vars[k] = va
			continue
		}
		if sameVal(va, vb) {
			n.vars[k] = va
		} else {
			n.vars[k] = c.nameVal(c.iteVal(cond, va, vb), k.Name())
		}
	}
	for k, vb := range b.vars {
		if _, ok := a.vars[k]; !ok {
			n.vars[k] = vb
		}
	}
	for k, va := range a.ghosts {
		vb, ok := b.ghosts[k]
		if !ok {
			continue
		}
		if sameVal(va, vb) {
			n.ghosts[k] = va
		} else {
			n.ghosts[k] = c.nameVal(c.iteVal(cond, va, vb), k)
		}
	}
	fams := map[string]bool{}
	for k := range a.heaps {
		fams[k] = true
	}
	for k := range b.heaps {
		fams[k] = true
	}
	keys := make([]string, 0, len(fams))
	for k := range fams {
		keys = append(keys, k)
	}
	sort.Strings(keys)
	for _, k := range keys {
		leaf := c.heapLeaf[k]
		ha, hb := c.heapGet(a, k, leaf), c.heapGet(b, k, leaf)
		if ha.S == hb.S {
			n.heaps[k] = ha
		} else {
			n.heaps[k] = c.name(Ite(cond, ha, hb), "H_"+k)
		}
	}
	return n
}

// nameVal names the components of a value so that later terms stay small.
func (c *Ctx) nameVal(v Val, hint string) Val {
	switch x := v.(type) {
	case Scalar:
		return Scalar{c.nameIfBig(x.T, hint), x.Ty}
	case Ptr:
		return Ptr{c.nameIfBig(x.Ref, hint+"#ref"), c.nameIfBig(x.Idx, hint+"#idx"), x.Elem}
	case Slice:
		return Slice{c.nameIfBig(x.Ref, hint+"#ref"), c.nameIfBig(x.Off, hint+"#off"), c.nameIfBig(x.Len, hint+"#len"), c.nameIfBig(x.Cap, hint+"#cap"), x.Elem}
	case Struct:
		r := Struct{Ty: x.Ty}
		st, _ := x.Ty.Underlying().(*types.Struct)
		for i, f := range x.F {
			h := hint
			if st != nil && i < st.NumFields() {
				h = hint + "." + st.Field(i).Name()
			}
			r.F = append(r.F, c.nameVal(f, h))
		}
		return r
	case Tuple:
		r := Tuple{}
		for i, f := range x.Vs {
			r.Vs = append(r.Vs, c.nameVal(f, fmt.Sprintf("%s.%d", hint, i)))
		}
		return r
	case ArrayV:
		return ArrayV{c.nameIfBig(x.Ref, hint+"#aref"), x.N, x.Elem}
	}
	return v
}
