package main

import (
	"fmt"
	"go/ast"
	"go/printer"
	"go/token"
	"go/types"
	"os"
	"runtime/debug"
	"sort"
	"strings"
)

// FuncReport is the outcome of generating obligations for one function or lemma.
type FuncReport struct {
	Name      string
	Pkg       string
	Kind      string // "func" | "lemma"
	Mode      string
	Obligs    []*Obligation
	Err       string // non-empty: could not be brought under the subset (counts as a failed obligation)
	Trusted   []string
	Used      []string // callee contracts relied upon
	Ctx       *Ctx
	Contract  *FuncContract
	FuncDecl  *ast.FuncDecl
	PkgRef    *Pkg
	LemmaRef  *Lemma
}

func modeOf(s string) Mode {
	if strings.TrimSpace(s) == "bv" {
		return ModeBV
	}
	return ModeInt
}

// scanBoxed finds local variables whose address is taken (or that are captured by reference in a way the
// subset models through the heap).
func (c *Ctx) scanBoxed(body ast.Node) {
	ast.Inspect(body, func(n ast.Node) bool {
		switch x := n.(type) {
		case *ast.UnaryExpr:
			if x.Op == token.AND {
				if id, ok := ast.Unparen(x.X).(*ast.Ident); ok {
					if obj, ok := c.pkg.info.ObjectOf(id).(*types.Var); ok && obj.Parent() != c.pkg.types.Scope() {
						if _, isArr := obj.Type().Underlying().(*types.Array); !isArr {
							c.boxedVars[obj] = true
						}
					}
				}
			}
		case *ast.CallExpr:
			// x.m() with pointer receiver on an addressable struct variable
			if se, ok := x.Fun.(*ast.SelectorExpr); ok {
				if sel, ok := c.pkg.info.Selections[se]; ok && sel.Kind() == types.MethodVal {
					fn := sel.Obj().(*types.Func)
					sig := fn.Type().(*types.Signature)
					if sig.Recv() != nil {
						if _, wantPtr := sig.Recv().Type().(*types.Pointer); wantPtr {
							if id, ok := ast.Unparen(se.X).(*ast.Ident); ok {
								if obj, ok := c.pkg.info.ObjectOf(id).(*types.Var); ok {
									if _, isPtr := obj.Type().Underlying().(*types.Pointer); !isPtr && obj.Parent() != c.pkg.types.Scope() {
										if _, isIface := obj.Type().Underlying().(*types.Interface); !isIface {
											c.boxedVars[obj] = true
										}
									}
								}
							}
						}
					}
				}
			}
		}
		return true
	})
}

// initDefers creates the "executed" flag of every defer statement of a function body (not descending into closures).
func (c *Ctx) initDefers(st *State, body *ast.BlockStmt) {
	ast.Inspect(body, func(n ast.Node) bool {
		switch x := n.(type) {
		case *ast.FuncLit:
			return false
		case *ast.DeferStmt:
			flag := types.NewVar(token.NoPos, c.pkg.types, fmt.Sprintf("defer%d", len(c.deferFlags)), tBool)
			c.deferFlags[x] = flag
			st.vars[flag] = Scalar{TFalse, tBool}
		}
		return true
	})
}

func (c *Ctx) bindParamsEntry(env *SpecEnv) {
	for k, v := range c.entryParams {
		env.vars[k] = v
	}
}

// VerifyFunc generates the obligations of one function against its contract.
func VerifyFunc(prog *Program, pk *Pkg, fc *FuncContract, tier string) (rep *FuncReport) {
	rep = &FuncReport{Name: pk.rel + "." + fc.Key, Pkg: pk.rel, Kind: "func", Mode: fc.Mode, Contract: fc, PkgRef: pk}
	// "Func#label" is an additional contract of Func (e.g. a bounded stand-in next to the unbounded contract callers use)
	fd := pk.funcs[strings.SplitN(fc.Key, "#", 2)[0]]
	if fd == nil || fd.Body == nil {
		rep.Err = fmt.Sprintf("contract target %s.%s not found in the source tree", pk.rel, fc.Key)
		return rep
	}
	rep.FuncDecl = fd
	if inst := fc.Opts["instantiate"]; inst != "" {
		f := strings.Fields(inst)
		if len(f) == 2 {
			if bt, ok := basicByName[f[1]]; ok {
				setTypeParamByName(pk.path, f[0], bt)
			}
		}
	}
	c := newCtx(prog, pk, modeOf(fc.Mode))
	c.tier = tier
	c.fnName = rep.Name
	c.fc = fc
	c.declBool = fc.Opts["decl-pc"] != ""
	c.sliceQueries = c.declBool
	c.fdecl = fd
	rep.Ctx = c
	defer func() {
		if r := recover(); r != nil {
			if u, ok := r.(unsupported); ok {
				rep.Err = u.msg
				if os.Getenv("GOVC_VERBOSE") != "" {
					rep.Err += "\n" + string(debug.Stack())
				}
				rep.Obligs = c.obligs
				return
			}
			panic(r)
		}
	}()
	obj, _ := pk.info.Defs[fd.Name].(*types.Func)
	if obj == nil {
		rep.Err = "no type information for function"
		return rep
	}
	sig := obj.Type().(*types.Signature)
	c.scanBoxed(fd.Body)

	st := &State{vars: map[types.Object]Val{}, heaps: map[string]Term{}, ghosts: map[string]Val{"$panic": Scalar{TFalse, tBool}}, pc: TTrue}
	st.alloc = c.declare("alloc0", SInt)
	c.allocEntry = st.alloc
	c.axiom(app(SBool, "<=", Term{"0", SInt}, st.alloc))
	c.entry = st // provisional, for global variable lookups during parameter creation
	for _, gp := range prog.pkgs {
		if gp.contracts != nil {
			for i := range gp.contracts.GhostVars {
				c.ghostVar(st, &gp.contracts.GhostVars[i])
			}
		}
	}

	// parameters
	var facts []Term
	c.entryParams = map[string]Val{}
	var recv Val
	var args []Val
	mk := func(name string, t types.Type) Val {
		if !validType(t) || c.opaqueType(t) {
			return Opaque{t}
		}
		v := c.fresh(t, name, &facts)
		c.refsBounded(v, st.alloc, &facts)
		c.recordInputs(name, v)
		return v
	}
	if sig.Recv() != nil {
		nm := "recv"
		if len(fd.Recv.List[0].Names) > 0 {
			nm = fd.Recv.List[0].Names[0].Name
		}
		recv = mk(nm, sig.Recv().Type())
		c.entryParams[nm] = recv
		c.entryParams["recv"] = recv
	}
	k := 0
	for _, f := range fd.Type.Params.List {
		names := f.Names
		if len(names) == 0 {
			names = []*ast.Ident{{Name: fmt.Sprintf("arg%d", k)}}
		}
		for _, n := range names {
			v := mk(n.Name, sig.Params().At(k).Type())
			args = append(args, v)
			if n.Name != "_" {
				c.entryParams[n.Name] = v
			}
			k++
		}
	}
	st.assume(c, And(facts...))
	c.fr = &frame{fc: fc, pkg: pk, sig: sig, loopIdx: numberLoops(fd.Body)}
	c.bindParams(st, fd.Type, fd.Recv, recv, args)
	c.declareResults(st, fd.Type, sig)
	c.initDefers(st, fd.Body)
	entry := st.clone()
	c.entry = entry

	// requires
	env := c.newEnv(st, entry)
	env.scopePos = fd.Body.Lbrace + 1
	c.bindParamsEntry(env)
	isFragment := fc.Opts["fragment"] != ""
	for _, cl := range fc.Requires {
		if isFragment {
			break // a fragment's requires clauses speak about the state at its loop: see verifyFragment
		}
		t := env.boolTerm(cl.Expr)
		st.assume(c, And(env.facts...))
		st.assumeSoft(c, t)
		env.facts = nil
	}
	// "uses L ...": separately proved lemmas, available as universally quantified facts in every obligation of this function
	for _, u := range strings.Fields(fc.Opts["uses"]) {
		if isFragment {
			break
		}
		c.assumeLemma(st, pk, u)
	}
	entry.pc = st.pc
	c.cover(st, "requires-satisfiable", fd.Pos())
	// modifies footprint, evaluated once at entry
	{
		fenv := c.newEnv(entry, entry)
		fenv.scopePos = token.NoPos
		c.bindParamsEntry(fenv)
		c.noName++
		for _, cl := range fc.Modifies {
			c.footprint = append(c.footprint, c.modTargets(fenv, cl)...)
		}
		c.noName--
		c.footprintReady = fc.Opts["fragment"] == ""
	}

	if frag := fc.Opts["fragment"]; frag != "" {
		c.verifyFragment(st, entry, fc, fd, frag, rep)
		return rep
	}
	// body
	out := c.execBlock(st, fd.Body.List)
	end := c.finishFrame(out.normal, fd.Body.End())
	if end != nil && !end.dead() {
		if pf := c.panicFlag(end); pf.S != "false" {
			c.oblige(end, "panic", "escapes", fd.Pos(), Not(pf), "a panic raised by a callee must not escape the function")
			end.assume(c, Not(pf))
		}
	}
	if end != nil && !end.dead() {
		c.cover(end, "exit-reachable", fd.Body.End())
		if fc.Opts["split-returns"] != "" && len(c.fr.defers) == 0 && len(c.fr.retStates) > 1 && (out.normal == nil || out.normal.dead()) {
			// "opt split-returns": the postconditions are checked at every return statement separately (same obligations,
			// smaller queries) instead of once on the merged exit state. Only without deferred calls.
			for i, r := range c.fr.retStates {
				if r.st == nil || r.st.dead() {
					continue
				}
				rs := r.st.clone()
				if pf := c.panicFlag(rs); pf.S != "false" {
					rs.assume(c, Not(pf))
				}
				c.checkEnsures(rs, entry, fc, sig, fd, fmt.Sprintf("ret%d", i))
			}
		} else {
			c.checkEnsures(end, entry, fc, sig, fd, "")
		}
	} else if !c.allPanic() {
		// no reachable exit: every path panics or loops forever
	}
	// an at-stmt assertion whose statement no longer occurs (or is unreachable) cannot be checked: report it rather than drop it
	var lost []string
	for text := range fc.AtStmt {
		if !c.atStmtSeen[text] {
			lost = append(lost, text)
		}
	}
	if len(lost) > 0 && rep.Err == "" {
		sort.Strings(lost)
		rep.Err = "at-stmt assertion(s) attached to statements that no longer occur in the function: " + strings.Join(lost, " ; ")
	}
	rep.Obligs = c.obligs
	for t := range c.trusted {
		rep.Trusted = append(rep.Trusted, t)
	}
	sort.Strings(rep.Trusted)
	for u := range c.usedContracts {
		rep.Used = append(rep.Used, u)
	}
	sort.Strings(rep.Used)
	return rep
}

func (c *Ctx) allPanic() bool { return false }

func (c *Ctx) checkEnsures(end, entry *State, fc *FuncContract, sig *types.Signature, fd *ast.FuncDecl, suffix string) {
	env := c.newEnv(end, entry)
	env.scopePos = token.NoPos
	c.bindParamsEntry(env)
	rn := resultNames(sig)
	for i, r := range c.fr.results {
		v := end.vars[r]
		if bx, isBox := v.(boxed); isBox {
			v = c.load(end, c.elemPrefix(r.Type()), r.Type(), bx.Ref, c.idx(0))
		}
		env.vars[rn[i]] = v
		env.vars[fmt.Sprintf("result%d", i)] = v
		if len(c.fr.results) == 1 {
			env.vars["result"] = v
		}
	}
	for _, cl := range fc.Ensures {
		if cl.Thorough && c.tier != "thorough" {
			continue
		}
		c.goalMode++
		t := env.boolTerm(cl.Expr)
		c.goalMode--
		goal := Implies(And(env.facts...), t)
		env.facts = nil
		label := cl.Label
		if suffix != "" {
			label = strings.TrimPrefix(label+":"+suffix, ":")
		}
		c.oblige(end, "ensures", label, fd.Pos(), goal, cl.Text)
	}
}

// checkFrame: every heap cell of an object that existed at entry and is outside the modifies footprint is unchanged.
func (c *Ctx) checkFrame(end, entry *State, fc *FuncContract, env *SpecEnv) {
	pre := c.newEnv(entry, entry)
	pre.scopePos = token.NoPos
	c.bindParamsEntry(pre)
	var targets []modTarget
	for _, cl := range fc.Modifies {
		targets = append(targets, c.modTargets(pre, cl)...)
	}
	fams := make([]string, 0, len(end.heaps))
	for f := range end.heaps {
		fams = append(fams, f)
	}
	sort.Strings(fams)
	for _, f := range fams {
		leaf := c.heapLeaf[f]
		if len(leaf) > 0 && leaf[0] == 0 {
			continue
		}
		h0 := c.heapGet(entry, f, leaf)
		h1 := end.heaps[f]
		if h0.S == h1.S {
			continue
		}
		r := Term{c.sym("r"), SInt}
		i := Term{c.sym("i"), c.idxSort()}
		var excl []Term
		for _, t := range targets {
			if t.fam != f {
				continue
			}
			if t.lo != nil {
				excl = append(excl, Not(And(Eq(r, t.ref), c.ile(*t.lo, i), c.ilt(i, *t.hi))))
			} else if t.idx == nil {
				excl = append(excl, Not(Eq(r, t.ref)))
			} else {
				excl = append(excl, Not(And(Eq(r, t.ref), Eq(i, *t.idx))))
			}
		}
		cond := And(append([]Term{app(SBool, "<=", Term{"1", SInt}, r), app(SBool, "<=", r, c.allocEntry)}, excl...)...)
		goal := Term{fmt.Sprintf("(forall ((%s Int) (%s %s)) (=> %s (= (select (select %s %s) %s) (select (select %s %s) %s))))",
			r.S, i.S, c.idxSort(), cond.S, h1.S, r.S, i.S, h0.S, r.S, i.S), SBool}
		c.oblige(end, "frame", f, c.fdecl.Pos(), goal, "only the modifies footprint changes ("+f+")")
	}
}

// recordInputs registers the SMT symbols of a parameter for model extraction.
func (c *Ctx) recordInputs(name string, v Val) {
	switch s := v.(type) {
	case Scalar:
		c.inputs = append(c.inputs, inputSym{name, s.T})
	case Slice:
		c.inputs = append(c.inputs, inputSym{name + "#ref", s.Ref}, inputSym{name + "#off", s.Off}, inputSym{name + "#len", s.Len}, inputSym{name + "#cap", s.Cap})
		c.inputSlices = append(c.inputSlices, inputSlice{name, s})
	case Ptr:
		c.inputs = append(c.inputs, inputSym{name + "#ref", s.Ref})
	case Struct:
		st, _ := s.Ty.Underlying().(*types.Struct)
		for i, f := range s.F {
			if st != nil {
				c.recordInputs(name+"."+st.Field(i).Name(), f)
			}
		}
	}
}

type inputSlice struct {
	Name string
	S    Slice
}

// VerifyLemma generates the obligations of a lemma (closed formula over spec functions).
func VerifyLemma(prog *Program, pk *Pkg, lm *Lemma, tier string) (rep *FuncReport) {
	rep = &FuncReport{Name: pk.rel + ".lemma:" + lm.Name, Pkg: pk.rel, Kind: "lemma", Mode: lm.Mode, PkgRef: pk, LemmaRef: lm}
	c := newCtx(prog, pk, modeOf(lm.Mode))
	c.tier = tier
	c.fnName = rep.Name
	rep.Ctx = c
	defer func() {
		if r := recover(); r != nil {
			if u, ok := r.(unsupported); ok {
				rep.Err = u.msg
				rep.Obligs = c.obligs
				return
			}
			panic(r)
		}
	}()
	st := &State{vars: map[types.Object]Val{}, heaps: map[string]Term{}, ghosts: map[string]Val{}, pc: TTrue}
	st.alloc = c.declare("alloc0", SInt)
	c.allocEntry = st.alloc
	c.entry = st
	c.fr = &frame{pkg: pk}
	env := c.newEnv(st, st)
	var facts []Term
	for _, p := range lm.Params {
		t := c.resolveTypeText(p.Type)
		if sl, ok := t.Underlying().(*types.Slice); ok {
			// sequences are heap independent in lemmas
			es := c.scalarSort(sl.Elem())
			arr := c.declare(p.Name+".arr", arraySort(c.idxSort(), es))
			// symbolic offset: a lemma about a sequence must hold for (and is later instantiated at) any window of an array
			off := c.declare(p.Name+".off", c.idxSort())
			ln := c.declare(p.Name+".len", c.idxSort())
			facts = append(facts, c.ile(c.idx(0), ln), c.ile(c.idx(0), off))
			if c.mode == ModeBV {
				facts = append(facts, c.ile(off, IntLit(bvSort(64), pow2(60))))
			}
			if c.mode == ModeBV {
				facts = append(facts, c.ile(ln, IntLit(bvSort(64), pow2(60))))
			}
			if c.mode == ModeInt {
				if lo, hi, ok := typeRange(sl.Elem()); ok {
					c.raw(fmt.Sprintf("(assert (forall ((i Int)) (! (and (<= %s (select %s i)) (<= (select %s i) %s)) :pattern ((select %s i)))))",
						IntLit(SInt, lo).S, arr.S, arr.S, IntLit(SInt, hi).S, arr.S))
				}
			}
			env.vars[p.Name] = Seq{arr, off, ln, sl.Elem()}
			c.inputs = append(c.inputs, inputSym{p.Name + "#len", ln})
			continue
		}
		v := c.fresh(t, p.Name, &facts)
		env.vars[p.Name] = v
		c.recordInputs(p.Name, v)
	}
	st.assume(c, And(facts...))
	for _, u := range lm.Uses {
		c.assumeLemma(st, pk, u)
	}
	for _, cl := range lm.Requires {
		st.assume(c, env.boolTerm(cl.Expr))
	}
	if lm.Induct != "" {
		// induction hypothesis: the lemma itself at k-1, available only when k >= 1 (so k-1 is a natural number and the
		// descent is well founded; for k <= 0 the goal is proved with no hypothesis)
		kv, ok := env.vars[lm.Induct].(Scalar)
		if !ok || !isIntType(kv.Ty) {
			unsupp("lemma %s: induction parameter %q is not an integer parameter", lm.Name, lm.Induct)
		}
		one := IntLit64(kv.T.Sort, 1)
		var km1 Term
		if c.mode == ModeBV {
			km1 = app(kv.T.Sort, "bvsub", kv.T, one)
		} else {
			km1 = app(kv.T.Sort, "-", kv.T, one)
		}
		env2 := c.newEnv(st, st)
		for n, v := range env.vars {
			env2.vars[n] = v
		}
		env2.vars[lm.Induct] = Scalar{km1, kv.Ty}
		c.noName++
		var pre, post []Term
		for _, cl := range lm.Requires {
			pre = append(pre, env2.boolTerm(cl.Expr))
		}
		for _, cl := range lm.Ensures {
			post = append(post, env2.boolTerm(cl.Expr))
		}
		c.noName--
		var ge Term
		if c.mode == ModeBV {
			ge = app(SBool, "bvsge", kv.T, one)
		} else {
			ge = app(SBool, ">=", kv.T, one)
		}
		st.assume(c, Implies(ge, Implies(And(pre...), And(post...))))
	}
	c.cover(st, "requires-satisfiable", token.NoPos)
	for _, cl := range lm.Ensures {
		c.goalMode++
		lt := env.boolTerm(cl.Expr)
		c.goalMode--
		o := c.oblige(st, "lemma", cl.Label, token.NoPos, lt, cl.Text)
		if o != nil {
			o.Backends = lm.Backends
			o.Timeout = lm.Timeout
			o.Thorough = lm.Thorough
		}
	}
	rep.Obligs = c.obligs
	for t := range c.trusted {
		rep.Trusted = append(rep.Trusted, t)
	}
	sort.Strings(rep.Trusted)
	return rep
}

// assumeLemma adds a (separately proved) lemma as a universally quantified axiom.
func (c *Ctx) assumeLemma(st *State, pk *Pkg, name string) {
	var lm *Lemma
	for _, p := range c.prog.pkgs {
		if p.contracts == nil {
			continue
		}
		for _, l := range p.contracts.Lemmas {
			if l.Name == name {
				lm = l
				pk = p
			}
		}
	}
	if lm == nil {
		unsupp("unknown lemma %q", name)
	}
	env := c.newEnv(st, st)
	env.pkg = pk
	env.qdepth++
	var binders []string
	var guards []Term
	for _, p := range lm.Params {
		t := c.resolveTypeTextIn(p.Type, pk)
		if sl, ok := t.Underlying().(*types.Slice); ok {
			es := c.scalarSort(sl.Elem())
			a, o, l := c.sym(p.Name+".arr"), c.sym(p.Name+".off"), c.sym(p.Name+".len")
			binders = append(binders, fmt.Sprintf("(%s %s)", a, arraySort(c.idxSort(), es)), fmt.Sprintf("(%s %s)", o, c.idxSort()), fmt.Sprintf("(%s %s)", l, c.idxSort()))
			env.vars[p.Name] = Seq{Term{a, arraySort(c.idxSort(), es)}, Term{o, c.idxSort()}, Term{l, c.idxSort()}, sl.Elem()}
			guards = append(guards, c.ile(c.idx(0), Term{l, c.idxSort()}), c.ile(c.idx(0), Term{o, c.idxSort()}))
			if c.mode == ModeBV {
				guards = append(guards, c.ile(Term{o, c.idxSort()}, IntLit(bvSort(64), pow2(60))))
			}
			continue
		}
		srt := c.scalarSort(t)
		if srt == "" {
			unsupp("lemma %s: parameter type %s", name, p.Type)
		}
		s := c.sym(p.Name)
		binders = append(binders, fmt.Sprintf("(%s %s)", s, srt))
		env.vars[p.Name] = Scalar{Term{s, srt}, t}
		if c.mode == ModeInt && srt == SInt {
			guards = append(guards, c.inRange(Term{s, srt}, t))
		}
	}
	c.noName++
	var pre, post []Term
	for _, cl := range lm.Requires {
		c.goalMode++ // a premise is in goal polarity (the solver has to establish it): no re-indexed duplicates
		pre = append(pre, env.boolTerm(cl.Expr))
		c.goalMode--
	}
	for _, cl := range lm.Ensures {
		post = append(post, env.boolTerm(cl.Expr))
	}
	c.noName--
	body := Implies(And(append(guards, pre...)...), And(post...))
	if len(binders) == 0 {
		c.axiom(body)
	} else {
		// a proved consequence of the definitions: droppable in the light queries and in reachability covers
		c.qfact(st, Term{fmt.Sprintf("(forall (%s) %s)", strings.Join(binders, " "), body.S), SBool})
	}
	c.usedLemmas[pk.rel+".lemma:"+name] = true
}

// verifyFragment: "opt fragment <loop header>" - the contract is about ONE loop of the function, verified from an
// arbitrary state: every variable the loop uses (parameters, locals declared before it) holds an arbitrary value of its
// type, the heap is arbitrary, the requires clauses (over those variables) are assumed, the loop is executed with its
// invariants (loop 0 = the fragment loop, nested loops 1.. in source order) and the ensures clauses are checked in the
// state after the loop, where they may mention any variable in scope there. What is proved is the Hoare triple
// {requires} loop {ensures} of the loop as it stands in the function; how the function reaches the loop and what it does
// with the result afterwards is outside this contract. No frame condition is checked.
func (c *Ctx) verifyFragment(st, entry *State, fc *FuncContract, fd *ast.FuncDecl, header string, rep *FuncReport) {
	var loops []ast.Stmt
	// "<header>" or "<header>" @N (the N-th loop, counted from 1, with that header)
	nth := 0
	if i := strings.LastIndex(header, "@"); i > 0 && strings.HasSuffix(strings.TrimSpace(header[:i]), "\"") {
		fmt.Sscanf(strings.TrimSpace(header[i+1:]), "%d", &nth)
		header = strings.TrimSpace(header[:i])
	}
	want := normStmtText(header)
	if f := strings.Fields(header); len(f) == 2 && f[0] == "writes" {
		// "writes v": the innermost loop that assigns to variable v (robust against edits of the loop header)
		loops = c.loopsWriting(fd, f[1])
		want = "\x00"
	}
	ast.Inspect(fd.Body, func(nd ast.Node) bool {
		switch l := nd.(type) {
		case *ast.ForStmt:
			if normStmtText(c.loopHeaderText(l)) == want {
				loops = append(loops, l)
			}
		case *ast.RangeStmt:
			if normStmtText(c.loopHeaderText(l)) == want {
				loops = append(loops, l)
			}
		}
		return true
	})
	if nth > 0 && nth <= len(loops) {
		loops = loops[nth-1 : nth]
	}
	if len(loops) != 1 {
		rep.Err = fmt.Sprintf("fragment %q matches %d loops of %s (exactly one expected)", header, len(loops), fc.Key)
		rep.Obligs = c.obligs
		return
	}
	loop := loops[0]
	c.fr.loopIdx = numberLoops(loop)
	// arbitrary values for the variables that flow into the loop
	var facts []Term
	type pendingVar struct {
		obj types.Object
		v   Val
	}
	var pending []pendingVar
	seen := map[types.Object]bool{}
	ast.Inspect(loop, func(nd ast.Node) bool {
		id, ok := nd.(*ast.Ident)
		if !ok {
			return true
		}
		obj, ok := c.pkg.info.Uses[id].(*types.Var)
		if !ok || obj.IsField() || seen[obj] || obj.Pkg() != c.pkg.types || obj.Parent() == c.pkg.types.Scope() {
			return true
		}
		seen[obj] = true
		if obj.Pos() >= loop.Pos() && obj.Pos() < loop.End() {
			return true // declared inside the fragment
		}
		if _, bound := st.vars[obj]; bound && !c.isResultVar(obj) {
			return true // a parameter: already arbitrary
		}
		t := obj.Type()
		if !validType(t) || c.opaqueType(t) {
			st.vars[obj] = Opaque{t}
			return true
		}
		v := c.fresh(t, obj.Name(), &facts)
		c.refsBounded(v, st.alloc, &facts)
		c.recordInputs(obj.Name(), v)
		if c.boxedVars[obj] && c.addressTakenBefore(fd, obj, loop.End()) {
			// its address may already be stored somewhere when the loop starts: such aliasing is not modelled
			unsupp("fragment: the address of %s is taken before the end of the loop", obj.Name())
		}
		pending = append(pending, pendingVar{obj, v})
		return true
	})
	// every other local that is in scope at the loop (declared before it): a clause of the contract may mention it although
	// the loop itself does not (any more) - e.g. a bound the loop is supposed to test
	if c.pkg.types != nil {
		for sc := c.pkg.types.Scope().Innermost(loop.Pos()); sc != nil && sc != c.pkg.types.Scope() && sc != types.Universe; sc = sc.Parent() {
			for _, name := range sc.Names() {
				obj, ok := sc.Lookup(name).(*types.Var)
				if !ok || obj.IsField() || seen[obj] || obj.Pos() >= loop.Pos() || obj.Pos() < fd.Pos() {
					continue
				}
				seen[obj] = true
				if _, bound := st.vars[obj]; bound {
					continue
				}
				t := obj.Type()
				if !validType(t) || c.opaqueType(t) {
					st.vars[obj] = Opaque{t}
					continue
				}
				if c.boxedVars[obj] && c.addressTakenBefore(fd, obj, loop.End()) {
					continue
				}
				v := c.fresh(t, obj.Name(), &facts)
				c.refsBounded(v, st.alloc, &facts)
				pending = append(pending, pendingVar{obj, v})
			}
		}
	}
	// values first (all bounded by the entry allocation), then the boxes of address-taken locals: a local whose address is
	// only taken after the loop cannot be pointed at by anything that exists while the loop runs
	for _, pv := range pending {
		c.declVar(st, pv.obj, pv.v)
	}
	st.assume(c, And(facts...))
	// the requires clauses may mention the locals: evaluate them now, at the loop
	env := c.newEnv(st, st)
	env.scopePos = loop.Pos()
	c.bindParamsEntry(env)
	for _, cl := range fc.Requires {
		t := env.boolTerm(cl.Expr)
		st.assume(c, And(env.facts...))
		st.assumeSoft(c, t)
		env.facts = nil
	}
	for _, u := range strings.Fields(fc.Opts["uses"]) {
		c.assumeLemma(st, c.pkg, u)
	}
	fentry := st.clone()
	c.entry = fentry
	c.cover(st, "fragment-entry-reachable", loop.Pos())
	out := c.exec(st, loop, "")
	end := out.normal
	if end == nil || end.dead() {
		rep.Obligs = c.obligs
		rep.Err = "the fragment loop has no normal exit"
		return
	}
	if pf := c.panicFlag(end); pf.S != "false" {
		end.assume(c, Not(pf))
	}
	c.cover(end, "fragment-exit-reachable", loop.End())
	eenv := c.newEnv(end, fentry)
	eenv.scopePos = loop.End()
	c.bindParamsEntry(eenv)
	for _, cl := range fc.Ensures {
		if cl.Thorough && c.tier != "thorough" {
			continue
		}
		c.goalMode++
		t := eenv.boolTerm(cl.Expr)
		c.goalMode--
		goal := Implies(And(eenv.facts...), t)
		eenv.facts = nil
		c.oblige(end, "ensures", cl.Label, loop.Pos(), goal, cl.Text)
	}
	c.trusted["fragment contract: the loop is verified from an arbitrary state; how the function reaches it and uses its result is outside the contract"] = true
	rep.Obligs = c.obligs
	for t := range c.trusted {
		rep.Trusted = append(rep.Trusted, t)
	}
	sort.Strings(rep.Trusted)
	for u := range c.usedContracts {
		rep.Used = append(rep.Used, u)
	}
	sort.Strings(rep.Used)
}

func (c *Ctx) isResultVar(obj types.Object) bool {
	for _, r := range c.fr.results {
		if r == obj {
			return true
		}
	}
	return false
}

// loopHeaderText: the source text of a loop from "for" up to (not including) the opening brace of its body.
func (c *Ctx) loopHeaderText(l ast.Stmt) string {
	var body *ast.BlockStmt
	switch x := l.(type) {
	case *ast.ForStmt:
		body = x.Body
	case *ast.RangeStmt:
		body = x.Body
	}
	var b strings.Builder
	cp := shallowLoopWithoutBody(l)
	printer.Fprint(&b, c.prog.fset, cp)
	_ = body
	t := strings.Join(strings.Fields(b.String()), " ")
	t = strings.TrimSpace(strings.TrimSuffix(t, "}"))
	return strings.TrimSpace(strings.TrimSuffix(t, "{"))
}

func normStmtText(t string) string {
	t = strings.Trim(strings.TrimSpace(t), "\"")
	t = strings.TrimSpace(strings.TrimSuffix(strings.TrimSpace(t), "{"))
	return strings.Join(strings.Fields(t), " ")
}

func shallowLoopWithoutBody(l ast.Stmt) ast.Stmt {
	switch x := l.(type) {
	case *ast.ForStmt:
		cp := *x
		cp.Body = &ast.BlockStmt{}
		return &cp
	case *ast.RangeStmt:
		cp := *x
		cp.Body = &ast.BlockStmt{}
		return &cp
	}
	return l
}

// addressTakenBefore: some &obj (or a closure capturing obj) occurs in the function before position end.
func (c *Ctx) addressTakenBefore(fd *ast.FuncDecl, obj types.Object, end token.Pos) bool {
	found := false
	ast.Inspect(fd.Body, func(nd ast.Node) bool {
		switch x := nd.(type) {
		case *ast.UnaryExpr:
			if x.Op == token.AND && x.Pos() < end {
				if id := rootIdent(x.X); id != nil && c.pkg.info.ObjectOf(id) == obj {
					found = true
				}
			}
		case *ast.FuncLit:
			if x.Pos() < end {
				ast.Inspect(x.Body, func(n2 ast.Node) bool {
					if id, ok := n2.(*ast.Ident); ok && c.pkg.info.ObjectOf(id) == obj {
						found = true
					}
					return true
				})
			}
		}
		return true
	})
	return found
}

// loopsWriting: the innermost loops of fd whose body assigns to (or through an index / field of) the variable named v.
func (c *Ctx) loopsWriting(fd *ast.FuncDecl, v string) []ast.Stmt {
	writes := func(n ast.Node) bool {
		found := false
		ast.Inspect(n, func(nd ast.Node) bool {
			check := func(e ast.Expr) {
				if id := rootIdent(e); id != nil && id.Name == v {
					found = true
				}
			}
			switch x := nd.(type) {
			case *ast.FuncLit:
				return false
			case *ast.AssignStmt:
				for _, l := range x.Lhs {
					check(l)
				}
			case *ast.IncDecStmt:
				check(x.X)
			}
			return true
		})
		return found
	}
	var cands []ast.Stmt
	ast.Inspect(fd.Body, func(nd ast.Node) bool {
		switch l := nd.(type) {
		case *ast.ForStmt:
			if writes(l.Body) {
				cands = append(cands, l)
			}
		case *ast.RangeStmt:
			if writes(l.Body) {
				cands = append(cands, l)
			}
		}
		return true
	})
	var inner []ast.Stmt
	for _, a := range cands {
		hasNested := false
		for _, b := range cands {
			if a != b && b.Pos() > a.Pos() && b.End() <= a.End() {
				hasNested = true
			}
		}
		if !hasNested {
			inner = append(inner, a)
		}
	}
	return inner
}
