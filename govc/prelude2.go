package main

import (
	"math/big"
	"go/ast"
	"go/token"
	"go/types"
)

// Prelude models that take closures: sort.Search, slices.SortFunc, sort.StringSlice.Sort, strings.Compare.

func init() {
	prelude["sort.Search"] = preSortSearch
	prelude["slices.SortFunc"] = preSlicesSortFunc
	prelude["sort.StringSlice.Sort"] = preStringSliceSort
	prelude["sort.Strings"] = func(c *Ctx, st *State, x *ast.CallExpr, r Val) Val {
		return preSortStrings(c, st, x, c.evalSlice(st, x.Args[0]))
	}
	prelude["strings.Compare"] = preStringsCompare
	for _, n := range []string{"Lock", "Unlock", "RLock", "RUnlock"} {
		prelude["sync.RWMutex."+n] = preNoop
		prelude["sync.Mutex."+n] = preNoop
	}
}

func preNoop(c *Ctx, st *State, x *ast.CallExpr, r Val) Val {
	c.trust("sync.Mutex / sync.RWMutex provide mutual exclusion (lock operations are not modelled; functions are verified sequentially)")
	return Tuple{}
}

// closureOn evaluates a func literal on the given arguments in a copy of st (so its reads see st's heap) under an
// extra assumption; obligations raised inside the closure are recorded against that copy.
func (c *Ctx) closureOn(st *State, lit *ast.FuncLit, args []Val, assume Term) Val {
	cl := st.clone()
	cl.assume(c, assume)
	sig := c.typeOf(lit).(*types.Signature)
	return c.inlineBody(cl, lit.Type, lit.Body, nil, nil, args, sig, lit.Pos())
}

func funcLitArg(c *Ctx, e ast.Expr) *ast.FuncLit {
	lit, ok := ast.Unparen(e).(*ast.FuncLit)
	if !ok {
		unsupp("closure argument must be a function literal at %s", c.posStr(e.Pos()))
	}
	return lit
}

// sort.Search(n, pred): requires pred monotone on [0,n) (obligation), returns the smallest index with pred true (or n).
func preSortSearch(c *Ctx, st *State, x *ast.CallExpr, r Val) Val {
	c.trust("sort.Search returns the smallest index in [0,n] at which a monotone predicate becomes true")
	n := c.evalIndexTerm(st, x.Args[0])
	lit := funcLitArg(c, x.Args[1])
	is := c.idxSort()
	// monotonicity: for arbitrary 0 <= i < j < n, pred(i) ==> pred(j)
	i, j := c.declare("si", is), c.declare("sj", is)
	rng := And(c.ile(c.idx(0), i), c.ilt(i, j), c.ilt(j, n))
	pi := c.asScalar(c.closureOn(st, lit, []Val{Scalar{i, tInt}}, rng), tBool).T
	pj := c.asScalar(c.closureOn(st, lit, []Val{Scalar{j, tInt}}, rng), tBool).T
	mono := st.clone()
	mono.assume(c, rng)
	c.oblige(mono, "call", "sort.Search:monotone", x.Pos(), Implies(pi, pj), "search predicate is monotone over the table (the table is sorted)")
	// result
	var facts []Term
	res := c.fresh(tInt, "found", &facts).(Scalar)
	facts = append(facts, c.ile(c.idx(0), res.T), c.ile(res.T, n))
	st.assume(c, And(facts...))
	inR := And(c.ile(c.idx(0), res.T), c.ilt(res.T, n))
	pr := c.asScalar(c.closureOn(st, lit, []Val{Scalar{res.T, tInt}}, inR), tBool).T
	st.assume(c, Implies(inR, pr))
	prev := c.isub(res.T, c.idx(1))
	inP := And(c.ile(c.idx(0), prev), c.ilt(prev, n))
	pp := c.asScalar(c.closureOn(st, lit, []Val{Scalar{prev, tInt}}, inP), tBool).T
	st.assume(c, Implies(inP, Not(pp)))
	// quantified form of "smallest": no index below the result satisfies the predicate. The predicate is evaluated on a
	// symbol that is then bound by the quantifier (no intermediate names, obligations of this copy are duplicates).
	func() {
		defer func() {
			if r := recover(); r != nil {
				if _, ok := r.(unsupported); !ok {
					panic(r)
				}
			}
		}()
		save := len(c.obligs)
		saveCounters := map[string]int{}
		for k, v := range c.counters {
			saveCounters[k] = v
		}
		kq := Term{c.sym("kq"), is}
		below := And(c.ile(c.idx(0), kq), c.ilt(kq, res.T))
		c.noName++
		pk := c.asScalar(c.closureOn(st, lit, []Val{Scalar{kq, tInt}}, below), tBool).T
		c.noName--
		c.obligs = c.obligs[:save]
		c.counters = saveCounters
		body := Implies(below, Not(pk))
		q := "(forall ((" + kq.S + " " + is + ")) " + body.S + ")"
		if pats := c.choosePatterns(body.S, []string{kq.S}); pats != "" {
			q = "(forall ((" + kq.S + " " + is + ")) (! " + body.S + " " + pats + "))"
		}
		st.assume(c, Term{q, SBool})
	}()
	return res
}

// cmpTermOn evaluates comparator closure cmp on two element values and returns its int result.
func (c *Ctx) cmpOn(st *State, lit *ast.FuncLit, a, b Val) Term {
	return c.asScalar(c.closureOn(st, lit, []Val{a, b}, TTrue), tInt).T
}

// slices.SortFunc(s, cmp): cmp must be antisymmetric and transitive (obligations). Afterwards s holds unspecified
// elements in an order with cmp(s[i], s[j]) <= 0 for i < j (the permutation property is not expressed).
func preSlicesSortFunc(c *Ctx, st *State, x *ast.CallExpr, r Val) Val {
	c.trust("slices.SortFunc yields a cmp-sorted slice for a strict weak ordering cmp (that the result is a permutation of the input is not modelled)")
	s := c.evalSlice(st, x.Args[0])
	lit := funcLitArg(c, x.Args[1])
	var facts []Term
	a := c.fresh(s.Elem, "sa", &facts)
	b := c.fresh(s.Elem, "sb", &facts)
	d := c.fresh(s.Elem, "sc", &facts)
	pre := st.clone()
	pre.assume(c, And(facts...))
	zero := c.idx(0)
	ab, ba := c.cmpOn(pre, lit, a, b), c.cmpOn(pre, lit, b, a)
	bd, ad := c.cmpOn(pre, lit, b, d), c.cmpOn(pre, lit, a, d)
	c.oblige(pre, "call", "slices.SortFunc:antisymmetric", x.Pos(),
		And(Eq(c.ilt(ab, zero), c.ilt(zero, ba)), Eq(Eq(ab, zero), Eq(ba, zero))), "comparator is antisymmetric: cmp(a,b) < 0 iff cmp(b,a) > 0")
	c.oblige(pre, "call", "slices.SortFunc:transitive", x.Pos(),
		And(Implies(And(c.ilt(ab, zero), c.ilt(bd, zero)), c.ilt(ad, zero)), Implies(And(c.ile(ab, zero), c.ile(bd, zero)), c.ile(ad, zero))),
		"comparator is transitive")
	// optional agreement with a specification order named in the contract:  opt sort-le <specfunc>
	if c.fc != nil && c.fc.Opts["sort-le"] != "" {
		env := c.newEnv(pre, pre)
		env.vars["sa"], env.vars["sb"] = a, b
		le := env.boolTerm(&SCall{Fun: &SIdent{c.fc.Opts["sort-le"]}, Args: []SExpr{&SIdent{"sa"}, &SIdent{"sb"}}})
		c.oblige(pre, "call", "slices.SortFunc:order", x.Pos(), Eq(c.ile(ab, zero), le), "comparator agrees with the specified order "+c.fc.Opts["sort-le"])
	}
	// effect: rows of the slice's object are replaced; sorted w.r.t. cmp (and w.r.t. the specified order)
	c.checkWriteRange(st, c.elemPrefix(s.Elem), s.Elem, s.Ref, s.Off, c.iadd(s.Off, s.Len), x.Pos(), TTrue)
	c.havocSliceRange(st, s, func(fam, leaf string, old, nw Term) Term {
		return c.forallIdx(func(i Term) Term {
			in := And(c.ile(s.Off, i), c.ilt(i, c.iadd(s.Off, s.Len)))
			return Implies(Not(in), Eq(Select(nw, i), Select(old, i)))
		})
	})
	if c.fc != nil && c.fc.Opts["sort-le"] != "" {
		// sortedness fact in terms of the specification order (justified by the :order obligation above)
		env := c.newEnv(st, st)
		env.vars["sorted_s"] = s
		q := &SQuant{Forall: true, Vars: []SParam{{"si", "int"}, {"sj", "int"}}, Body: &SBin{"==>",
			&SBin{"&&", &SBin{"&&", &SBin{"<=", &SLit{Int: bigZero()}, &SIdent{"si"}}, &SBin{"<", &SIdent{"si"}, &SIdent{"sj"}}}, &SBin{"<", &SIdent{"sj"}, &SCall{Fun: &SIdent{"len"}, Args: []SExpr{&SIdent{"sorted_s"}}}}},
			&SCall{Fun: &SIdent{c.fc.Opts["sort-le"]}, Args: []SExpr{&SIndex{&SIdent{"sorted_s"}, &SIdent{"si"}}, &SIndex{&SIdent{"sorted_s"}, &SIdent{"sj"}}}}}}
		st.assume(c, env.boolTerm(q))
	}
	return Tuple{}
}

func preStringSliceSort(c *Ctx, st *State, x *ast.CallExpr, r Val) Val {
	s, ok := r.(Slice)
	if !ok {
		unsupp("sort.StringSlice.Sort on unmodelled receiver")
	}
	return preSortStrings(c, st, x, s)
}

// sort.Strings / sort.StringSlice.Sort: the slice becomes ascending (non-strict); permutation not expressed.
func preSortStrings(c *Ctx, st *State, x *ast.CallExpr, s Slice) Val {
	c.trust("sort.Strings / sort.StringSlice.Sort yield an ascending slice (that the result is a permutation of the input is not modelled)")
	c.needStr()
	c.strCompare(token.LSS, c.emptyStr(), c.emptyStr()) // make sure str.lt is declared
	c.checkWriteRange(st, c.elemPrefix(s.Elem), s.Elem, s.Ref, s.Off, c.iadd(s.Off, s.Len), x.Pos(), TTrue)
	c.havocSliceRange(st, s, func(fam, leaf string, old, nw Term) Term {
		return c.forallIdx(func(i Term) Term {
			in := And(c.ile(s.Off, i), c.ilt(i, c.iadd(s.Off, s.Len)))
			return Implies(Not(in), Eq(Select(nw, i), Select(old, i)))
		})
	})
	fam := c.elemPrefix(s.Elem)
	row := c.name(Select(c.heapGet(st, fam, SStr), s.Ref), "sorted")
	i, j := c.sym("i"), c.sym("j")
	it, jt := Term{i, c.idxSort()}, Term{j, c.idxSort()}
	body := Implies(And(c.ile(s.Off, it), c.ilt(it, jt), c.ilt(jt, c.iadd(s.Off, s.Len))), Not(app(SBool, "str.lt", Select(row, jt), Select(row, it))))
	st.assume(c, Term{"(forall ((" + i + " " + c.idxSort() + ") (" + j + " " + c.idxSort() + ")) " + body.S + ")", SBool})
	return Tuple{}
}

func preStringsCompare(c *Ctx, st *State, x *ast.CallExpr, r Val) Val {
	c.trust("strings.Compare = sign of the string order")
	ts := types.Typ[types.String]
	a := c.asScalar(c.eval(st, x.Args[0]), ts).T
	b := c.asScalar(c.eval(st, x.Args[1]), ts).T
	lt := c.strCompare(token.LSS, a, b)
	one, mone := c.idx(1), c.isub(c.idx(0), c.idx(1))
	return Scalar{c.name(Ite(lt, mone, Ite(Eq(a, b), c.idx(0), one)), "scmp"), tInt}
}

func bigZero() *big.Int { return big.NewInt(0) }
