package main

import (
	"encoding/json"
	"fmt"
	"os"
	"os/exec"
	"path/filepath"
	"sort"
	"strings"
)

// Must-fail self-test: every stored seeded change (and every reverted repair commit) that breaks property P is applied
// to an in-memory copy of the files it touches (packages.Config.Overlay — /repo itself is not modified) and P's quick
// check is run on that overlay. A seed the check does not report means the check is weaker than believed.

type selftestResult struct {
	Seed       string   `json:"seed"`
	Caught     bool     `json:"caught"`
	Violations int      `json:"violations"`
	Failed     []string `json:"failed_obligations,omitempty"`
	Error      string   `json:"error,omitempty"`
}

var skipReplay bool // overlay runs: counterexamples cannot be replayed against the (unpatched) files on disk

func seedOverlay(root, patchPath string) (map[string][]byte, error) {
	data, err := os.ReadFile(patchPath)
	if err != nil {
		return nil, err
	}
	var files []string
	for _, l := range strings.Split(string(data), "\n") {
		if strings.HasPrefix(l, "+++ b/") {
			files = append(files, strings.TrimSpace(strings.TrimPrefix(l, "+++ b/")))
		}
	}
	if len(files) == 0 {
		return nil, fmt.Errorf("no files in patch")
	}
	tmp, err := os.MkdirTemp("", "govc-seed-")
	if err != nil {
		return nil, err
	}
	defer os.RemoveAll(tmp)
	for _, f := range files {
		src, err := os.ReadFile(filepath.Join(root, f))
		if err != nil {
			return nil, err
		}
		dst := filepath.Join(tmp, f)
		os.MkdirAll(filepath.Dir(dst), 0o755)
		if err := os.WriteFile(dst, src, 0o644); err != nil {
			return nil, err
		}
	}
	cmd := exec.Command("patch", "-p1", "-s", "-d", tmp, "-i", patchPath)
	if out, err := cmd.CombinedOutput(); err != nil {
		return nil, fmt.Errorf("patch does not apply: %s", strings.TrimSpace(string(out)))
	}
	ov := map[string][]byte{}
	for _, f := range files {
		b, err := os.ReadFile(filepath.Join(tmp, f))
		if err != nil {
			return nil, err
		}
		ov[filepath.Join(root, f)] = b
	}
	return ov, nil
}

func runSelftest(root, prop string) []selftestResult {
	dirs, _ := filepath.Glob(filepath.Join(verifRoot, "seeded", "*"))
	sort.Strings(dirs)
	var out []selftestResult
	for _, d := range dirs {
		mb, err := os.ReadFile(filepath.Join(d, "meta.json"))
		if err != nil {
			continue
		}
		var meta struct {
			Property string `json:"property"`
			Tier     string `json:"tier"` // "thorough" when the change is only visible to obligations verified in that tier
		}
		if json.Unmarshal(mb, &meta) != nil || meta.Property != prop {
			continue
		}
		r := selftestResult{Seed: filepath.Base(d)}
		ov, err := seedOverlay(root, filepath.Join(d, "patch.diff"))
		if err != nil {
			r.Error = err.Error()
			out = append(out, r)
			continue
		}
		skipReplay = true
		tier := "quick"
		if meta.Tier == "thorough" {
			tier = "thorough"
		}
		res := runCheck(root, prop, tier, ov)
		skipReplay = false
		r.Violations = len(res.Violations)
		r.Caught = r.Violations > 0
		for i, v := range res.Violations {
			if i < 5 {
				r.Failed = append(r.Failed, v.Obligation)
			}
		}
		out = append(out, r)
	}
	return out
}

func cmdSelftest(args []string) int {
	props := args
	if len(props) == 0 {
		for p := range propPkgs {
			props = append(props, p)
		}
		sort.Strings(props)
	}
	missed := 0
	for _, p := range props {
		for _, r := range runSelftest(repoRoot, p) {
			switch {
			case r.Error != "":
				fmt.Printf("SELFTEST property=%s seed=%s ERROR %s\n", p, r.Seed, r.Error)
				missed++
			case r.Caught:
				fmt.Printf("SELFTEST property=%s seed=%s caught (%d obligations)\n", p, r.Seed, r.Violations)
			default:
				fmt.Printf("SELFTEST property=%s seed=%s MISSED\n", p, r.Seed)
				missed++
			}
		}
	}
	if missed > 0 {
		return 1
	}
	return 0
}
