package main

import (
	"fmt"
	"go/ast"
	"go/token"
	"go/types"
	"strings"
)

// ---------------------------------------------------------------------------------------------
// calls

func (c *Ctx) evalCall(st *State, x *ast.CallExpr) Val {
	// conversion
	if tv, ok := c.pkg.info.Types[x.Fun]; ok && tv.IsType() {
		return c.evalConversion(st, x, tv.Type)
	}
	fun := ast.Unparen(x.Fun)
	// generic instantiation f[T](...)
	if ie, ok := fun.(*ast.IndexExpr); ok {
		if tv, ok := c.pkg.info.Types[ie.X]; ok {
			if _, isSig := tv.Type.Underlying().(*types.Signature); isSig {
				fun = ie.X
			}
		}
	}
	switch f := fun.(type) {
	case *ast.Ident:
		switch o := c.pkg.info.ObjectOf(f).(type) {
		case *types.Builtin:
			c.checkAtCallKeys(st, x, []string{o.Name()})
			return c.evalBuiltin(st, x, o.Name())
		case *types.Func:
			return c.callStatic(st, x, o, nil, nil)
		case *types.Var:
			fv := c.eval(st, f)
			if fr, ok := fv.(FuncRef); ok {
				return c.callFuncRef(st, x, fr)
			}
			return c.callDynamic(st, x, o.Name(), nil)
		}
	case *ast.SelectorExpr:
		if id, ok := f.X.(*ast.Ident); ok {
			if _, isPkg := c.pkg.info.ObjectOf(id).(*types.PkgName); isPkg {
				if fn, ok := c.pkg.info.ObjectOf(f.Sel).(*types.Func); ok {
					return c.callStatic(st, x, fn, nil, nil)
				}
				unsupp("call of non-function %s.%s", id.Name, f.Sel.Name)
			}
		}
		sel, ok := c.pkg.info.Selections[f]
		if !ok {
			unsupp("unresolved call target %s at %s (missing generated code?)", exprString(f), c.posStr(x.Pos()))
		}
		switch sel.Kind() {
		case types.MethodVal:
			fn := sel.Obj().(*types.Func)
			return c.callStatic(st, x, fn, f.X, sel)
		case types.FieldVal:
			// call of a func-typed field
			return c.callDynamic(st, x, f.Sel.Name, f)
		}
	case *ast.FuncLit:
		return c.callFuncRef(st, x, FuncRef{Lit: f, Env: st})
	}
	unsupp("unsupported call form %T at %s", fun, c.posStr(x.Pos()))
	return nil
}

func (c *Ctx) evalArgs(st *State, x *ast.CallExpr, sig *types.Signature) []Val {
	var out []Val
	// f(g()) with multi-value g
	if len(x.Args) == 1 && sig != nil && sig.Params().Len() > 1 {
		if tv, ok := c.pkg.info.Types[x.Args[0]]; ok {
			if tup, isTup := tv.Type.(*types.Tuple); isTup {
				v := c.eval(st, x.Args[0]).(Tuple)
				_ = tup
				return v.Vs
			}
		}
	}
	np := 0
	if sig != nil {
		np = sig.Params().Len()
	}
	for i, a := range x.Args {
		if !c.hasValidType(a) && selectorChain(a) {
			// an argument that reads generated code absent from the tree (node.Labels ...): passed as an unmodelled value;
			// a nil dereference inside the chain is not modelled
			c.trusted["arguments whose type is missing from the tree (generated code) are unmodelled values; a nil dereference while reading them is not considered"] = true
			out = append(out, Opaque{types.Typ[types.Invalid]})
			continue
		}
		v := c.eval(st, a)
		if sig != nil {
			var pt types.Type
			switch {
			case sig.Variadic() && i >= np-1:
				pt = sig.Params().At(np - 1).Type()
				if !x.Ellipsis.IsValid() {
					pt = pt.(*types.Slice).Elem()
				}
			case i < np:
				pt = sig.Params().At(i).Type()
			}
			if pt != nil && validType(pt) {
				v = c.coerce(st, v, pt)
			}
		}
		out = append(out, v)
	}
	if sig != nil && sig.Variadic() && !x.Ellipsis.IsValid() {
		// pack the variadic tail into a fresh slice
		fixed := np - 1
		et := sig.Params().At(np - 1).Type().(*types.Slice).Elem()
		tail := out[fixed:]
		if validType(et) && c.scalarOrModelled(et) {
			r := c.allocRef(st)
			c.zeroRow(st, c.elemPrefix(et), et, r)
			for i, v := range tail {
				c.store(st, c.elemPrefix(et), et, r, c.idx(int64(i)), c.coerce(st, v, et))
			}
			n := c.idx(int64(len(tail)))
			out = append(out[:fixed:fixed], Slice{r, c.idx(0), n, n, et})
		} else {
			out = append(out[:fixed:fixed], Opaque{sig.Params().At(np - 1).Type()})
		}
	}
	return out
}

// selectorChain: x, x.f, x.f.g, (x).f - no calls, no indexing.
func selectorChain(e ast.Expr) bool {
	switch x := e.(type) {
	case *ast.Ident:
		return true
	case *ast.ParenExpr:
		return selectorChain(x.X)
	case *ast.SelectorExpr:
		return selectorChain(x.X)
	}
	return false
}

func (c *Ctx) scalarOrModelled(t types.Type) bool {
	switch t.Underlying().(type) {
	case *types.Basic, *types.Pointer, *types.Slice, *types.Struct, *types.Interface, *types.Map, *types.Signature:
		return true
	}
	return false
}

func recvNamed(fn *types.Func) (string, bool) {
	sig := fn.Type().(*types.Signature)
	if sig.Recv() == nil {
		return "", false
	}
	rt := sig.Recv().Type()
	isPtr := false
	if pt, ok := rt.(*types.Pointer); ok {
		rt = pt.Elem()
		isPtr = true
	}
	if n, ok := rt.(*types.Named); ok {
		return n.Obj().Name(), isPtr
	}
	return "", isPtr
}

func fullName(fn *types.Func) string {
	if fn.Pkg() == nil {
		return fn.Name()
	}
	if rn, _ := recvNamed(fn); rn != "" {
		return fn.Pkg().Path() + "." + rn + "." + fn.Name()
	}
	if sig := fn.Type().(*types.Signature); sig.Recv() != nil {
		// interface method
		if n, ok := sig.Recv().Type().(*types.Named); ok {
			return fn.Pkg().Path() + "." + n.Obj().Name() + "." + fn.Name()
		}
	}
	return fn.Pkg().Path() + "." + fn.Name()
}

// callStatic handles a call whose callee is a known *types.Func (function, concrete method or interface method).
func (c *Ctx) callStatic(st *State, x *ast.CallExpr, fn *types.Func, recvExpr ast.Expr, sel *types.Selection) Val {
	sig := fn.Type().(*types.Signature)
	// instantiated signature of a generic callee (types of results in the caller's terms)
	if tv, ok := c.pkg.info.Types[x.Fun]; ok && recvExpr == nil {
		if isig, ok := tv.Type.(*types.Signature); ok && isig.Params().Len() == sig.Params().Len() {
			sig = isig
		}
	}
	name := fullName(fn)
	if fn.Origin() != nil && fn.Origin() != fn {
		fn = fn.Origin()
		name = fullName(fn)
	}
	if strings.HasPrefix(name, "sync/atomic.") && recvExpr != nil {
		// methods of atomic.Int64 / atomic.Pointer[T] ... : the cell is not modelled (reads are arbitrary, writes ignored)
		c.trusted["fields of sync/atomic value types (atomic.Int64, atomic.Pointer, ...) are not modelled: loads return arbitrary values"] = true
		for _, a := range x.Args {
			c.evalMaybe(st, a)
		}
		rs := sig.Results()
		if rs.Len() == 0 {
			return Tuple{}
		}
		var facts []Term
		rt := rs.At(0).Type()
		if !validType(rt) || c.opaqueType(rt) {
			return Opaque{rt}
		}
		v := c.fresh(rt, "atomicload", &facts)
		c.refsBounded(v, st.alloc, &facts)
		st.assume(c, And(facts...))
		return v
	}
	if strings.HasPrefix(name, "sync.") {
		// a contract file may give lock operations a (ghost) meaning, e.g. "func sync.RWMutex.RLock" setting a ghost flag,
		// to state lock-discipline facts; by default they are no-ops
		if rn, _ := recvNamed(fn); rn != "" && c.pkg.contracts != nil {
			if ofc := c.pkg.contracts.Funcs["sync."+rn+"."+fn.Name()]; ofc != nil {
				c.checkAtCall(st, x, fn)
				return c.applyContract(st, x, c.pkg, fn, nil, ofc, nil, nil)
			}
		}
		if h, ok := prelude[name]; ok {
			return h(c, st, x, nil)
		}
	}
	if c.isLoggingCallee(fn) {
		return c.loggingChain(st, x, fn)
	}
	// receiver
	var recv Val
	if recvExpr != nil {
		recv = c.evalReceiver(st, recvExpr, fn, sel)
	}
	c.checkAtCall(st, x, fn)
	// an explicit contract for an external function in the verified package's contract file takes precedence over the
	// built-in model (e.g. bytes.Equal kept abstract)
	if fn.Pkg() != nil && c.pkg.contracts != nil && fn.Pkg() != c.pkg.types {
		if ofc := c.pkg.contracts.Funcs[fn.Pkg().Name()+"."+fn.Name()]; ofc != nil && sig.Recv() == nil {
			return c.applyContract(st, x, c.pkg, fn, nil, ofc, recv, c.evalArgs(st, x, sig))
		}
	}
	if h, ok := prelude[name]; ok {
		return h(c, st, x, recv)
	}
	if strings.HasPrefix(name, c.prog.module+"/pkg/logger.") || name == "github.com/rs/zerolog.Event.Msg" {
		return c.loggerCall(st, x, fn)
	}
	pk, fd, fc := c.prog.lookupFunc(fn)
	args := c.evalArgs(st, x, sig)
	// interface whose values are known to be pointers to one concrete type ("impl T" in its type declaration):
	// the call is resolved to T's method contract
	if sig.Recv() != nil && recv != nil {
		if _, isIface := sig.Recv().Type().Underlying().(*types.Interface); isIface {
			if n, td := c.ghostOwner(sig.Recv().Type()); td != nil && td.Impl != "" {
				if ipk := c.prog.byPath[n.Obj().Pkg().Path()]; ipk != nil && ipk.contracts != nil {
					key := td.Impl + "." + fn.Name()
					if ifc, ifd := ipk.contracts.Funcs[key], ipk.funcs[key]; ifc != nil && ifd != nil {
						if obj, ok := ipk.info.Defs[ifd.Name].(*types.Func); ok {
							if tn, ok := ipk.types.Scope().Lookup(td.Impl).(*types.TypeName); ok {
								rp := Ptr{refOf(recv), c.idx(0), tn.Type()}
								if isig := obj.Type().(*types.Signature); isig.Recv() != nil {
									if pt, isPtr := isig.Recv().Type().(*types.Pointer); isPtr {
										rp.Elem = pt.Elem()
									}
								}
								return c.applyContractSig(st, x, ipk, obj.Type().(*types.Signature), ifd, ifc, rp, args, key)
							}
						}
					}
				}
			}
		}
	}
	if fd != nil && fd.Body != nil && c.mayInline(fn, name) {
		return c.inlineCall(st, x, pk, fd, recv, args)
	}
	if fc != nil {
		return c.applyContractSig(st, x, pk, sig, fd, fc, recv, args, name)
	}
	if fd != nil && fd.Body != nil && c.mayInline(fn, name) {
		return c.inlineCall(st, x, pk, fd, recv, args)
	}
	if ic := c.ifaceContract(fn); ic != nil {
		return c.applyContract(st, x, ic.pk, fn, nil, ic.fc, recv, args)
	}
	unsupp("call to %s without contract at %s", name, c.posStr(x.Pos()))
	return nil
}

type ifaceC struct {
	pk *Pkg
	fc *FuncContract
}

// ifaceContract finds an (assumed) contract declared for an interface method or external function:
// key "Iface.Method" in the contract file of the package declaring the interface, or in the current package
// under the qualified key "pkgname.Type.Method" / "pkgname.Func".
func (c *Ctx) ifaceContract(fn *types.Func) *ifaceC {
	sig := fn.Type().(*types.Signature)
	key := fn.Name()
	if sig.Recv() != nil {
		rt := sig.Recv().Type()
		if pt, ok := rt.(*types.Pointer); ok {
			rt = pt.Elem()
		}
		if n, ok := rt.(*types.Named); ok {
			key = n.Obj().Name() + "." + fn.Name()
		}
	}
	if fn.Pkg() != nil {
		if pk := c.prog.byPath[fn.Pkg().Path()]; pk != nil && pk.contracts != nil {
			if fc := pk.contracts.Funcs[key]; fc != nil {
				return &ifaceC{pk, fc}
			}
		}
		q := fn.Pkg().Name() + "." + key
		// the package under verification states its own assumptions about externals; other loaded packages' versions
		// (which may differ) are only a fallback
		if c.pkg != nil && c.pkg.contracts != nil {
			if fc := c.pkg.contracts.Funcs[q]; fc != nil {
				return &ifaceC{c.pkg, fc}
			}
		}
		for _, pk := range c.prog.pkgs {
			if pk.contracts != nil {
				if fc := pk.contracts.Funcs[q]; fc != nil {
					return &ifaceC{pk, fc}
				}
			}
		}
	} else if c.pkg != nil && c.pkg.contracts != nil {
		// universe methods (error.Error): keyed "error.Error" in the contract file of the package under verification
		k := key
		if sig.Recv() != nil && !strings.Contains(k, ".") {
			k = "error." + fn.Name()
		}
		if fc := c.pkg.contracts.Funcs[k]; fc != nil {
			return &ifaceC{c.pkg, fc}
		}
	}
	return nil
}

func (c *Ctx) mayInline(fn *types.Func, name string) bool {
	if c.fc == nil {
		return false
	}
	for _, n := range c.fc.Inline {
		if n == fn.Name() || n == name || strings.HasSuffix(name, "."+n) || strings.HasSuffix(name, "/"+n) {
			return c.inlineDepth < 6
		}
	}
	return false
}

func (c *Ctx) evalReceiver(st *State, recvExpr ast.Expr, fn *types.Func, sel *types.Selection) Val {
	sig := fn.Type().(*types.Signature)
	rt := sig.Recv().Type()
	_, wantPtr := rt.(*types.Pointer)
	et := c.typeOf(recvExpr)
	_, isIface := rt.Underlying().(*types.Interface)
	if isIface {
		return c.eval(st, recvExpr)
	}
	// promoted methods through embedded fields: walk the implicit field path
	if sel != nil && len(sel.Index()) > 1 {
		base := c.placeOrValue(st, recvExpr)
		p := c.walkFields(st, base, sel.Index()[:len(sel.Index())-1], recvExpr.Pos())
		if wantPtr {
			if _, isPtr := p.ty.Underlying().(*types.Pointer); isPtr {
				return c.readPlace(st, p)
			}
			if p.heap && p.prefix == c.elemPrefix(p.ty) {
				return Ptr{p.ref, p.idx, p.ty}
			}
			unsupp("pointer-receiver method on embedded value at %s", c.posStr(recvExpr.Pos()))
		}
		return c.readPlace(st, p)
	}
	_, havePtr := et.Underlying().(*types.Pointer)
	switch {
	case wantPtr && !havePtr:
		return c.addressOf(st, recvExpr)
	case !wantPtr && havePtr:
		p := c.evalPtr(st, recvExpr)
		c.oblige(st, "nil", "deref", recvExpr.Pos(), Not(Eq(p.Ref, Term{"0", SInt})), "nil pointer dereference")
		return c.load(st, c.ptrPrefix(p), p.Elem, p.Ref, p.Idx)
	}
	return c.eval(st, recvExpr)
}

func (c *Ctx) loggerCall(st *State, x *ast.CallExpr, fn *types.Func) Val {
	for _, a := range x.Args {
		c.evalMaybe(st, a)
	}
	switch fn.Name() {
	case "Panicf", "Panic", "Fatalf", "Fatal":
		c.doPanic(st, x.Pos(), "logger."+fn.Name())
		return Tuple{}
	}
	sig := fn.Type().(*types.Signature)
	if sig.Results().Len() == 0 {
		return Tuple{}
	}
	var facts []Term
	v := c.fresh(sig.Results(), "log", &facts)
	if sig.Results().Len() == 1 {
		return v.(Tuple).Vs[0]
	}
	return v
}

func (c *Ctx) doPanic(st *State, pos token.Pos, what string) {
	goal := TFalse
	if c.fc != nil && len(c.fc.AllowPanic) > 0 && c.inlineDepth == 0 {
		env := c.newEnv(c.entry, c.entry)
		env.scopePos = c.fdecl.Body.Pos()
		c.bindParamsEntry(env)
		var cs []Term
		for _, cl := range c.fc.AllowPanic {
			cs = append(cs, env.boolTerm(cl.Expr))
		}
		goal = Or(cs...)
	}
	c.oblige(st, "panic", "unreachable", pos, goal, what+" must be unreachable")
	st.pc = TFalse
}

func (c *Ctx) callFuncRef(st *State, x *ast.CallExpr, fr FuncRef) Val {
	if fr.Lit != nil {
		lit := fr.Lit.(*ast.FuncLit)
		sig := c.typeOf(lit).(*types.Signature)
		args := c.evalArgs(st, x, sig)
		c.closureDepth++
		defer func() { c.closureDepth-- }()
		return c.inlineBody(st, lit.Type, lit.Body, nil, nil, args, sig, x.Pos())
	}
	if fr.Obj != nil {
		return c.callStatic(st, x, fr.Obj, nil, nil)
	}
	unsupp("call of unknown function value at %s", c.posStr(x.Pos()))
	return nil
}

// callDynamic: call through a func-typed variable or field; needs an assumed contract keyed by the name.
func (c *Ctx) callDynamic(st *State, x *ast.CallExpr, name string, sel *ast.SelectorExpr) Val {
	var fc *FuncContract
	if c.pkg.contracts != nil {
		fc = c.pkg.contracts.Funcs["func:"+name]
	}
	sig, _ := c.typeOf(x.Fun).Underlying().(*types.Signature)
	if fc == nil {
		unsupp("dynamic call %s without contract at %s", name, c.posStr(x.Pos()))
	}
	args := c.evalArgs(st, x, sig)
	return c.applyContractSig(st, x, c.pkg, sig, nil, fc, nil, args, name)
}

// ---------------------------------------------------------------------------------------------
// conversions

func (c *Ctx) evalConversion(st *State, x *ast.CallExpr, to types.Type) Val {
	if len(x.Args) != 1 {
		unsupp("conversion with %d args", len(x.Args))
	}
	from := c.typeOf(x.Args[0])
	v := c.eval(st, x.Args[0])
	switch {
	case isIntType(to) && isIntType(from):
		s := c.asScalar(v, from)
		return Scalar{c.convertInt(s.T, from, to), to}
	case isFloatType(to) && isFloatType(from):
		s := c.asScalar(v, from)
		if c.mode == ModeBV && widthOfFloat(from) != widthOfFloat(to) {
			unsupp("float32<->float64 conversion")
		}
		return Scalar{s.T, to}
	case isFloatType(to) && isIntType(from), isIntType(to) && isFloatType(from):
		s := c.asScalar(v, from)
		name := fmt.Sprintf("conv.%s.%s", smtIdent(typeKey(from.Underlying())), smtIdent(typeKey(to.Underlying())))
		rs := c.scalarSort(to)
		c.declareUF(name, []string{s.T.Sort}, rs)
		c.trusted["int<->float conversions are uninterpreted deterministic functions"] = true
		r := app(rs, name, s.T)
		if rs == SInt {
			r = c.name(r, "cv")
			st.assume(c, c.inRange(r, to))
		}
		return Scalar{r, to}
	case isStringType(to) && isStringType(from):
		return Scalar{c.asScalar(v, from).T, to}
	}
	switch tu := to.Underlying().(type) {
	case *types.Slice:
		if isStringType(from) {
			return c.stringToBytes(st, c.asScalar(v, from).T, tu.Elem())
		}
		if s, ok := v.(Slice); ok {
			return Slice{s.Ref, s.Off, s.Len, s.Cap, tu.Elem()}
		}
		if _, ok := v.(Scalar); ok {
			return c.zero(to)
		}
	case *types.Basic:
		if tu.Kind() == types.UnsafePointer {
			if p, ok := v.(Ptr); ok {
				return p
			}
		}
		if isStringType(to) {
			if s, ok := v.(Slice); ok {
				return c.bytesToString(st, s, to)
			}
			if isIntType(from) {
				c.needStr()
				c.declareUF("str.fromrune", []string{c.scalarSort(from)}, SStr)
				return Scalar{app(SStr, "str.fromrune", c.asScalar(v, from).T), to}
			}
		}
	case *types.Pointer:
		if p, ok := v.(Ptr); ok {
			if b, isB := from.Underlying().(*types.Basic); isB && b.Kind() == types.UnsafePointer {
				// (*[8]byte)(unsafe.Pointer(&x)): a raw byte view of x. Only whole-view uses are modelled (see toSeq).
				at, isArr := tu.Elem().Underlying().(*types.Array)
				if w, _, okI := intInfoOf(p.Elem); okI && isArr && int64(w) == 8*at.Len() && isByteType(at.Elem()) {
					if c.views == nil {
						c.views = map[string]types.Type{}
					}
					c.views[p.Ref.S] = p.Elem
					c.trust("unsafe byte view of an integer variable: its bytes are a deterministic function of the variable's current value")
					return Ptr{p.Ref, p.Idx, tu.Elem()}
				}
				unsupp("conversion from unsafe.Pointer to %s at %s", to, c.posStr(x.Pos()))
			}
			return Ptr{p.Ref, p.Idx, tu.Elem()}
		}
		if s, ok := v.(Scalar); ok {
			return Ptr{s.T, c.idx(0), tu.Elem()}
		}
	case *types.Struct:
		if s, ok := v.(Struct); ok {
			return Struct{Ty: to, F: s.F}
		}
	case *types.Interface:
		return c.coerce(st, v, to)
	case *types.Signature:
		return v
	}
	unsupp("conversion %s -> %s at %s", from, to, c.posStr(x.Pos()))
	return nil
}

func intInfoOf(t types.Type) (int, bool, bool) {
	if b, ok := t.Underlying().(*types.Basic); ok {
		return intInfo(b)
	}
	return 0, false, false
}

func isByteType(t types.Type) bool {
	b, ok := t.Underlying().(*types.Basic)
	return ok && b.Kind() == types.Uint8
}

func widthOfFloat(t types.Type) int {
	if b, ok := t.Underlying().(*types.Basic); ok && b.Kind() == types.Float32 {
		return 32
	}
	return 64
}

func (c *Ctx) forallIdx(body func(i Term) Term) Term {
	i := c.sym("k")
	it := Term{i, c.idxSort()}
	b := body(it).S
	if pats := c.choosePatterns(b, []string{i}); pats != "" {
		return Term{fmt.Sprintf("(forall ((%s %s)) (! %s %s))", i, c.idxSort(), b, pats), SBool}
	}
	return Term{fmt.Sprintf("(forall ((%s %s)) %s)", i, c.idxSort(), b), SBool}
}

func (c *Ctx) stringToBytes(st *State, s Term, elem types.Type) Val {
	c.needStr()
	srt := c.scalarSort(elem)
	n := c.name(app(c.idxSort(), "str.len", s), "n")
	r := c.allocRef(st)
	row := c.declare("row", arraySort(c.idxSort(), srt))
	c.qfact(st, c.forallIdx(func(i Term) Term { return Eq(Select(row, i), app(srt, "str.at", s, i)) }))
	fam := c.elemPrefix(elem)
	h := c.heapGet(st, fam, srt)
	st.heaps[fam] = c.name(Store(h, r, row), "H_"+fam)
	// a zero-length conversion may yield a nil or empty slice; model as non-nil empty
	return Slice{r, c.idx(0), n, n, elem}
}

func (c *Ctx) bytesToString(st *State, s Slice, to types.Type) Val {
	c.needStr()
	srt := c.scalarSort(s.Elem)
	str := c.declare("s", SStr)
	fam := c.elemPrefix(s.Elem)
	row := Select(c.heapGet(st, fam, srt), s.Ref)
	st.assume(c, Eq(app(c.idxSort(), "str.len", str), s.Len))
	c.qfact(st, c.forallIdx(func(i Term) Term {
		return Implies(And(c.ile(c.idx(0), i), c.ilt(i, s.Len)), Eq(app(srt, "str.at", str, i), Select(row, c.iadd(s.Off, i))))
	}))
	return Scalar{str, to}
}

// ---------------------------------------------------------------------------------------------
// builtins

func (c *Ctx) evalBuiltin(st *State, x *ast.CallExpr, name string) Val {
	switch name {
	case "len", "cap":
		at := c.typeOf(x.Args[0])
		v := c.eval(st, x.Args[0])
		switch s := v.(type) {
		case Slice:
			if name == "len" {
				return Scalar{s.Len, tInt}
			}
			return Scalar{s.Cap, tInt}
		case ArrayV:
			return Scalar{c.idx(s.N), tInt}
		case Scalar:
			if isStringType(at) {
				return Scalar{app(c.idxSort(), "str.len", s.T), tInt}
			}
			if m, ok := at.Underlying().(*types.Map); ok {
				fam := c.mapPrefix(m) + "#len"
				h := c.mapHeap(st, fam, c.idxSort())
				l := c.name(Select(h, s.T), "maplen")
				st.assume(c, c.ile(c.idx(0), l))
				return Scalar{Ite(Eq(s.T, Term{"0", SInt}), c.idx(0), l), tInt} // len of a nil map is 0
			}
			if _, ok := at.Underlying().(*types.Slice); ok {
				return Scalar{c.idx(0), tInt}
			}
		case Ptr:
			if a, ok := s.Elem.Underlying().(*types.Array); ok {
				return Scalar{c.idx(a.Len()), tInt}
			}
		}
		unsupp("%s of %s at %s", name, at, c.posStr(x.Pos()))
	case "append":
		return c.evalAppend(st, x)
	case "copy":
		return c.evalCopy(st, x)
	case "make":
		return c.evalMake(st, x)
	case "new":
		t := c.typeOf(x.Args[0])
		r := c.allocRef(st)
		c.zeroRow(st, c.elemPrefix(t), t, r)
		return Ptr{r, c.idx(0), t}
	case "panic":
		for _, a := range x.Args {
			c.evalMaybe(st, a)
		}
		c.doPanic(st, x.Pos(), "panic")
		return Tuple{}
	case "min", "max":
		t := c.typeOf(x)
		if !isIntType(t) {
			unsupp("%s on %s", name, t)
		}
		acc := c.asScalar(c.eval(st, x.Args[0]), t).T
		for _, a := range x.Args[1:] {
			b := c.asScalar(c.eval(st, a), t).T
			lt := c.intCompare(token.LSS, acc, b, t)
			if name == "min" {
				acc = Ite(lt, acc, b)
			} else {
				acc = Ite(lt, b, acc)
			}
		}
		return Scalar{c.nameIfBig(acc, name), t}
	case "close":
		// close(ch): channels are outside the model (no modelled state changes); closing a nil or closed channel panics,
		// which is not considered
		c.trusted["close(ch): channels are not modelled"] = true
		c.evalMaybe(st, x.Args[0])
		return Tuple{}
	case "delete":
		// delete(m, k): k leaves the domain of the map (cardinality adjusted); no-op on a nil map
		if len(x.Args) == 2 {
			if mt, ok := c.typeOf(x.Args[0]).Underlying().(*types.Map); ok {
				m := c.asScalar(c.eval(st, x.Args[0]), c.typeOf(x.Args[0]))
				k := c.asScalar(c.eval(st, x.Args[1]), mt.Key()).T
				ks := c.mapKeySort(mt)
				domFam, lenFam := c.mapPrefix(mt)+"#dom", c.mapPrefix(mt)+"#len"
				hd := c.mapHeap(st, domFam, arraySort(ks, SBool))
				row := Select(hd, m.T)
				had := And(Not(Eq(m.T, Term{"0", SInt})), Select(row, k))
				hl := c.mapHeap(st, lenFam, c.idxSort())
				oldLen := Select(hl, m.T)
				st.heaps[lenFam] = c.name(Store(hl, m.T, Ite(had, c.isub(oldLen, c.idx(1)), oldLen)), "M")
				st.heaps[domFam] = c.name(Store(hd, m.T, Store(row, k, TFalse)), "M")
				return Tuple{}
			}
		}
		unsupp("delete on map at %s", c.posStr(x.Pos()))
	case "clear":
		v := c.eval(st, x.Args[0])
		if s, ok := v.(Slice); ok {
			c.checkWriteRange(st, c.elemPrefix(s.Elem), s.Elem, s.Ref, s.Off, c.iadd(s.Off, s.Len), c.curPos, TTrue)
			c.havocSliceRange(st, s, func(fam, leaf string, old, nw Term) Term {
				return c.forallIdx(func(i Term) Term {
					in := And(c.ile(s.Off, i), c.ilt(i, c.iadd(s.Off, s.Len)))
					return Eq(Select(nw, i), Ite(in, zeroOfSort(c, leaf), Select(old, i)))
				})
			})
			return Tuple{}
		}
		unsupp("clear of %T", v)
	case "recover":
		// recover() observes and clears the exceptional-exit flag of the running frame
		pf := c.panicFlag(st)
		r := c.declare("recovered", SInt)
		st.assume(c, app(SBool, "<", Term{"0", SInt}, r))
		st.ghosts["$panic"] = Scalar{TFalse, tBool}
		return Scalar{c.name(Ite(pf, r, Term{"0", SInt}), "rec"), types.NewInterfaceType(nil, nil)}
	case "print", "println":
		return Tuple{}
	}
	unsupp("builtin %s at %s", name, c.posStr(x.Pos()))
	return nil
}

func zeroOfSort(c *Ctx, leaf string) Term {
	switch {
	case leaf == SBool:
		return TFalse
	case leaf == SInt || isBV(leaf):
		return IntLit64(leaf, 0)
	case leaf == SStr:
		return c.emptyStr()
	case leaf == SF64:
		return c.f64zero()
	}
	unsupp("zero of sort %s", leaf)
	return Term{}
}

// havocSliceRange replaces the row of s (all leaf families) by a fresh row constrained by fact(old,new).
func (c *Ctx) havocSliceRange(st *State, s Slice, fact func(fam, leaf string, old, nw Term) Term) {
	var fams [][2]string
	c.leafFamilies(c.elemPrefix(s.Elem), s.Elem, &fams)
	for _, f := range fams {
		h := c.heapGet(st, f[0], f[1])
		old := c.name(Select(h, s.Ref), "row")
		nw := c.declare("row", arraySort(c.idxSort(), f[1]))
		st.heaps[f[0]] = c.name(Store(h, s.Ref, nw), "H_"+f[0])
		c.qfact(st, fact(f[0], f[1], old, nw))
	}
}

func (c *Ctx) evalMake(st *State, x *ast.CallExpr) Val {
	t := c.typeOf(x.Args[0])
	switch u := t.Underlying().(type) {
	case *types.Slice:
		n := c.evalIndexTerm(st, x.Args[1])
		capa := n
		c.oblige(st, "bounds", "make-len", x.Pos(), c.ile(c.idx(0), n), "make: len out of range")
		if len(x.Args) > 2 {
			capa = c.evalIndexTerm(st, x.Args[2])
			c.oblige(st, "bounds", "make-cap", x.Pos(), c.ile(n, capa), "make: cap out of range")
		}
		r := c.allocRef(st)
		c.zeroRow(st, c.elemPrefix(u.Elem()), u.Elem(), r)
		return Slice{r, c.idx(0), n, capa, u.Elem()}
	case *types.Map:
		for _, a := range x.Args[1:] {
			c.eval(st, a)
		}
		return c.newMap(st, t)
	case *types.Chan:
		unsupp("make(chan) at %s", c.posStr(x.Pos()))
	}
	unsupp("make of %s", t)
	return nil
}

func (c *Ctx) evalAppend(st *State, x *ast.CallExpr) Val {
	st0 := c.typeOf(x.Args[0])
	sl, ok := st0.Underlying().(*types.Slice)
	if !ok {
		unsupp("append to %s", st0)
	}
	s := c.evalSlice(st, x.Args[0])
	s.Elem = sl.Elem()
	if x.Ellipsis.IsValid() {
		at := c.typeOf(x.Args[1])
		if isStringType(at) {
			str := c.asScalar(c.eval(st, x.Args[1]), at).T
			n := c.name(app(c.idxSort(), "str.len", str), "n")
			srt := c.scalarSort(sl.Elem())
			return c.appendGeneric2(st, s, n, func(fam, leaf string, k Term) Term { return app(srt, "str.at", str, k) })
		}
		src := c.evalSlice(st, x.Args[1])
		// snapshot source rows (source may alias destination)
		rows := map[string]Term{}
		var fams [][2]string
		c.leafFamilies(c.elemPrefix(sl.Elem()), sl.Elem(), &fams)
		for _, f := range fams {
			rows[f[0]] = c.name(Select(c.heapGet(st, f[0], f[1]), src.Ref), "srow")
		}
		return c.appendGeneric2(st, s, src.Len, func(fam, leaf string, k Term) Term { return Select(rows[fam], c.iadd(src.Off, k)) })
	}
	var elems []Val
	for _, a := range x.Args[1:] {
		if !c.hasValidType(a) && selectorChain(a) && (isStringType(sl.Elem()) || isIntType(sl.Elem()) || isBoolType(sl.Elem())) {
			// an appended element read from generated code absent from the tree: an arbitrary value of the element type
			c.trusted["an operand whose type is missing from the tree (generated code) is an arbitrary value of the other operand's type"] = true
			var facts []Term
			v := c.fresh(sl.Elem(), "untyped", &facts)
			st.assume(c, And(facts...))
			elems = append(elems, v)
			continue
		}
		elems = append(elems, c.coerce(st, c.eval(st, a), sl.Elem()))
	}
	if len(elems) == 0 {
		return s
	}
	return c.appendElems2(st, s, elems)
}

// appendElems appends explicitly listed elements.
func (c *Ctx) appendElems(st *State, s Slice, elems []Val) Val {
	n := c.idx(int64(len(elems)))
	newLen := c.name(c.iadd(s.Len, n), "len")
	fits := c.name(c.ile(newLen, s.Cap), "fits")
	prefix := c.elemPrefix(s.Elem)
	// in-place branch
	inp := st.clone()
	for i, v := range elems {
		c.store(inp, prefix, s.Elem, s.Ref, c.iadd(c.iadd(s.Off, s.Len), c.idx(int64(i))), v)
	}
	// realloc branch
	re := st.clone()
	r := c.allocRef(re)
	var fams [][2]string
	c.leafFamilies(prefix, s.Elem, &fams)
	for _, f := range fams {
		h := c.heapGet(re, f[0], f[1])
		old := Select(h, s.Ref)
		row := c.declare("arow", arraySort(c.idxSort(), f[1]))
		re.assume(c, c.forallIdx(func(i Term) Term {
			return Implies(And(c.ile(c.idx(0), i), c.ilt(i, s.Len)), Eq(Select(row, i), Select(old, c.iadd(s.Off, i))))
		}))
		re.heaps[f[0]] = c.name(Store(h, r, row), "H_"+f[0])
	}
	for i, v := range elems {
		c.store(re, prefix, s.Elem, r, c.iadd(s.Len, c.idx(int64(i))), v)
	}
	newCap := c.declare("ncap", c.idxSort())
	// the quantified copy facts are unconditional truths about fresh symbols: keep them in the path condition
	st.pc = re.pc
	st.assume(c, c.ile(newLen, newCap))
	if c.mode == ModeBV {
		st.assume(c, c.ile(newCap, IntLit(bvSort(64), pow2(60))))
		st.assume(c, c.ile(c.idx(0), newLen)) // lengths never overflow int
	}
	st.alloc = re.alloc
	keys := map[string]bool{}
	for k := range inp.heaps {
		keys[k] = true
	}
	for k := range re.heaps {
		keys[k] = true
	}
	for k := range keys {
		leaf := c.heapLeaf[k]
		a, b := c.heapGet(inp, k, leaf), c.heapGet(re, k, leaf)
		if a.S == b.S {
			st.heaps[k] = a
		} else {
			st.heaps[k] = c.name(Ite(fits, a, b), "H_"+k)
		}
	}
	return Slice{c.nameIfBig(Ite(fits, s.Ref, r), "aref"), c.nameIfBig(Ite(fits, s.Off, c.idx(0)), "aoff"), newLen,
		c.nameIfBig(Ite(fits, s.Cap, newCap), "acap"), s.Elem}
}

// appendGeneric appends n elements given by elemAt(family, leaf, k) for 0 <= k < n.
func (c *Ctx) appendGeneric(st *State, s Slice, n Term, elemAt func(fam, leaf string, k Term) Term) Val {
	newLen := c.name(c.iadd(s.Len, n), "len")
	fits := c.name(c.ile(newLen, s.Cap), "fits")
	prefix := c.elemPrefix(s.Elem)
	r := c.allocRef(st)
	var fams [][2]string
	c.leafFamilies(prefix, s.Elem, &fams)
	for _, f := range fams {
		h := c.heapGet(st, f[0], f[1])
		old := c.name(Select(h, s.Ref), "orow")
		// in place: new row agrees with old outside [off+len, off+len+n)
		inrow := c.declare("irow", arraySort(c.idxSort(), f[1]))
		base := c.iadd(s.Off, s.Len)
		fam, leaf := f[0], f[1]
		c.qfact(st, c.forallIdx(func(i Term) Term {
			in := And(c.ile(base, i), c.ilt(i, c.iadd(base, n)))
			return Eq(Select(inrow, i), Ite(in, elemAt(fam, leaf, c.isub(i, base)), Select(old, i)))
		}))
		rerow := c.declare("rrow", arraySort(c.idxSort(), f[1]))
		c.qfact(st, c.forallIdx(func(i Term) Term {
			lo := And(c.ile(c.idx(0), i), c.ilt(i, s.Len))
			hi := And(c.ile(s.Len, i), c.ilt(i, newLen))
			return And(Implies(lo, Eq(Select(rerow, i), Select(old, c.iadd(s.Off, i)))),
				Implies(hi, Eq(Select(rerow, i), elemAt(fam, leaf, c.isub(i, s.Len)))))
		}))
		st.heaps[f[0]] = c.name(Ite(fits, Store(h, s.Ref, inrow), Store(h, r, rerow)), "H_"+f[0])
	}
	newCap := c.declare("ncap", c.idxSort())
	st.assume(c, c.ile(newLen, newCap))
	if c.mode == ModeBV {
		st.assume(c, c.ile(newCap, IntLit(bvSort(64), pow2(60))))
		st.assume(c, c.ile(c.idx(0), newLen))
	}
	return Slice{c.nameIfBig(Ite(fits, s.Ref, r), "aref"), c.nameIfBig(Ite(fits, s.Off, c.idx(0)), "aoff"), newLen,
		c.nameIfBig(Ite(fits, s.Cap, newCap), "acap"), s.Elem}
}

func (c *Ctx) evalCopy(st *State, x *ast.CallExpr) Val {
	dst := c.evalSlice(st, x.Args[0])
	at := c.typeOf(x.Args[1])
	var n Term
	var elemAt func(fam, leaf string, k Term) Term
	if isStringType(at) {
		str := c.asScalar(c.eval(st, x.Args[1]), at).T
		sl := app(c.idxSort(), "str.len", str)
		n = c.name(Ite(c.ilt(dst.Len, sl), dst.Len, sl), "n")
		srt := c.scalarSort(dst.Elem)
		elemAt = func(fam, leaf string, k Term) Term { return app(srt, "str.at", str, k) }
	} else {
		src := c.evalSlice(st, x.Args[1])
		n = c.name(Ite(c.ilt(dst.Len, src.Len), dst.Len, src.Len), "n")
		rows := map[string]Term{}
		var fams [][2]string
		c.leafFamilies(c.elemPrefix(dst.Elem), dst.Elem, &fams)
		for _, f := range fams {
			rows[f[0]] = c.name(Select(c.heapGet(st, f[0], f[1]), src.Ref), "srow")
		}
		elemAt = func(fam, leaf string, k Term) Term { return Select(rows[fam], c.iadd(src.Off, k)) }
	}
	c.checkWriteRange(st, c.elemPrefix(dst.Elem), dst.Elem, dst.Ref, dst.Off, c.iadd(dst.Off, n), c.curPos, TTrue)
	c.havocSliceRange(st, dst, func(fam, leaf string, old, nw Term) Term {
		return c.forallIdx(func(i Term) Term {
			in := And(c.ile(dst.Off, i), c.ilt(i, c.iadd(dst.Off, n)))
			return Eq(Select(nw, i), Ite(in, elemAt(fam, leaf, c.isub(i, dst.Off)), Select(old, i)))
		})
	})
	return Scalar{n, tInt}
}
