package main

import (
	"fmt"
	"math/big"
	"strings"
)

// Term is an SMT-LIB term with its sort. Terms are plain strings; sharing is obtained by naming
// intermediate results with define-fun (see Ctx.name).
type Term struct {
	S    string
	Sort string
}

const (
	SBool = "Bool"
	SInt  = "Int"
	SStr  = "Str" // uninterpreted sort for Go strings
	SF64  = "F64" // uninterpreted sort for float64 in int mode
)

func bvSort(w int) string { return fmt.Sprintf("(_ BitVec %d)", w) }

func isBV(s string) bool { return strings.HasPrefix(s, "(_ BitVec ") }

func bvWidth(s string) int {
	var w int
	fmt.Sscanf(s, "(_ BitVec %d)", &w)
	return w
}

func arraySort(idx, elem string) string { return "(Array " + idx + " " + elem + ")" }

var (
	TTrue  = Term{"true", SBool}
	TFalse = Term{"false", SBool}
)

func app(sort, op string, args ...Term) Term {
	var b strings.Builder
	b.WriteByte('(')
	b.WriteString(op)
	for _, a := range args {
		b.WriteByte(' ')
		b.WriteString(a.S)
	}
	b.WriteByte(')')
	return Term{b.String(), sort}
}

func And(ts ...Term) Term {
	var out []Term
	for _, t := range ts {
		if t.S == "true" {
			continue
		}
		if t.S == "false" {
			return TFalse
		}
		out = append(out, t)
	}
	switch len(out) {
	case 0:
		return TTrue
	case 1:
		return out[0]
	}
	return app(SBool, "and", out...)
}

func Or(ts ...Term) Term {
	var out []Term
	for _, t := range ts {
		if t.S == "false" {
			continue
		}
		if t.S == "true" {
			return TTrue
		}
		out = append(out, t)
	}
	switch len(out) {
	case 0:
		return TFalse
	case 1:
		return out[0]
	}
	return app(SBool, "or", out...)
}

func Not(t Term) Term {
	switch t.S {
	case "true":
		return TFalse
	case "false":
		return TTrue
	}
	if strings.HasPrefix(t.S, "(not ") {
		return Term{t.S[5 : len(t.S)-1], SBool}
	}
	return app(SBool, "not", t)
}

func Implies(a, b Term) Term {
	if a.S == "true" {
		return b
	}
	if a.S == "false" || b.S == "true" {
		return TTrue
	}
	return app(SBool, "=>", a, b)
}

func Ite(c, a, b Term) Term {
	if c.S == "true" {
		return a
	}
	if c.S == "false" {
		return b
	}
	if a.S == b.S {
		return a
	}
	if a.Sort != b.Sort {
		panic(fmt.Sprintf("ite sort mismatch %s:%s vs %s:%s", a.S, a.Sort, b.S, b.Sort))
	}
	return app(a.Sort, "ite", c, a, b)
}

func Eq(a, b Term) Term {
	if a.S == b.S {
		return TTrue
	}
	if a.Sort != b.Sort {
		panic(fmt.Sprintf("eq sort mismatch %s:%s vs %s:%s", a.S, a.Sort, b.S, b.Sort))
	}
	return app(SBool, "=", a, b)
}

func Select(a, i Term) Term {
	// (Array I E)
	es := elemSortOf(a.Sort)
	return app(es, "select", a, i)
}

func Store(a, i, v Term) Term { return app(a.Sort, "store", a, i, v) }

// elemSortOf parses "(Array I E)" and returns E.
func elemSortOf(s string) string {
	_, e := splitArraySort(s)
	return e
}

func idxSortOf(s string) string {
	i, _ := splitArraySort(s)
	return i
}

func splitArraySort(s string) (string, string) {
	if !strings.HasPrefix(s, "(Array ") {
		panic("not an array sort: " + s)
	}
	body := s[len("(Array ") : len(s)-1]
	// first sort token
	end := sortTokenEnd(body)
	return body[:end], strings.TrimSpace(body[end:])
}

func sortTokenEnd(s string) int {
	if s[0] != '(' {
		i := strings.IndexByte(s, ' ')
		if i < 0 {
			return len(s)
		}
		return i
	}
	depth := 0
	for i := 0; i < len(s); i++ {
		switch s[i] {
		case '(':
			depth++
		case ')':
			depth--
			if depth == 0 {
				return i + 1
			}
		}
	}
	return len(s)
}

// IntLit builds an integer literal of the given sort (Int or BitVec) from a big.Int
// (two's complement for bit-vectors).
func IntLit(sort string, v *big.Int) Term {
	if sort == SInt {
		if v.Sign() < 0 {
			return Term{"(- " + new(big.Int).Neg(v).String() + ")", SInt}
		}
		return Term{v.String(), SInt}
	}
	w := bvWidth(sort)
	m := new(big.Int).Lsh(big.NewInt(1), uint(w))
	x := new(big.Int).Mod(v, m)
	if w%4 == 0 {
		return Term{fmt.Sprintf("#x%0*s", w/4, x.Text(16)), sort}
	}
	return Term{fmt.Sprintf("#b%0*s", w, x.Text(2)), sort}
}

func IntLit64(sort string, v int64) Term { return IntLit(sort, big.NewInt(v)) }

func pow2(n int) *big.Int { return new(big.Int).Lsh(big.NewInt(1), uint(n)) }
