package main

import (
	"fmt"
	"go/ast"
	"go/constant"
	"go/token"
	"go/types"
	"math"
	"math/big"
	"strings"
)

// ---------------------------------------------------------------------------------------------
// scalar helpers

func (c *Ctx) typeOf(e ast.Expr) types.Type {
	tv, ok := c.pkg.info.Types[e]
	if !ok || tv.Type == nil {
		if id, isId := e.(*ast.Ident); isId {
			if o := c.pkg.info.ObjectOf(id); o != nil && o.Type() != nil {
				return o.Type()
			}
		}
		unsupp("no type for expression at %s", c.posStr(e.Pos()))
	}
	if !validType(tv.Type) {
		unsupp("expression of invalid type (missing generated code?) at %s", c.posStr(e.Pos()))
	}
	return tv.Type
}

func (c *Ctx) asScalar(v Val, t types.Type) Scalar {
	switch x := v.(type) {
	case Scalar:
		return x
	case Const:
		srt := c.scalarSort(t)
		return Scalar{IntLit(srt, x.V), t}
	case Ptr:
		// pointer stored into interface-typed slot: keep the reference
		return Scalar{x.Ref, t}
	case Opaque:
		unsupp("use of unmodelled value of type %s", x.Ty)
	}
	unsupp("scalar expected, got %T", v)
	return Scalar{}
}

func (c *Ctx) constVal(cv constant.Value, t types.Type, pos token.Pos) Val {
	switch cv.Kind() {
	case constant.Bool:
		if constant.BoolVal(cv) {
			return Scalar{TTrue, t}
		}
		return Scalar{TFalse, t}
	case constant.Int:
		srt := c.scalarSort(t)
		bi, ok := new(big.Int).SetString(cv.ExactString(), 10)
		if !ok {
			unsupp("bad int constant")
		}
		if isFloatType(t) {
			f, _ := new(big.Float).SetInt(bi).Float64()
			return c.floatConst(f, t)
		}
		if srt == "" {
			unsupp("integer constant of type %s at %s", t, c.posStr(pos))
		}
		return Scalar{IntLit(srt, bi), t}
	case constant.Float:
		f, _ := constant.Float64Val(cv)
		if isIntType(t) {
			bi, _ := new(big.Float).SetFloat64(f).Int(nil)
			return Scalar{IntLit(c.scalarSort(t), bi), t}
		}
		return c.floatConst(f, t)
	case constant.String:
		return Scalar{c.strLit(constant.StringVal(cv)), t}
	}
	unsupp("unsupported constant kind at %s", c.posStr(pos))
	return nil
}

func (c *Ctx) floatConst(f float64, t types.Type) Val {
	if c.mode == ModeBV {
		if b, ok := t.Underlying().(*types.Basic); ok && b.Kind() == types.Float32 {
			return Scalar{IntLit(bvSort(32), new(big.Int).SetUint64(uint64(math.Float32bits(float32(f))))), t}
		}
		return Scalar{IntLit(bvSort(64), new(big.Int).SetUint64(math.Float64bits(f))), t}
	}
	c.needF64()
	if f == 0 {
		return Scalar{c.f64zero(), t}
	}
	name := fmt.Sprintf("f64.c%x", math.Float64bits(f))
	c.declareUF(name, nil, SF64)
	return Scalar{Term{name, SF64}, t}
}

func toFP(t Term) Term {
	if bvWidth(t.Sort) == 32 {
		return Term{"((_ to_fp 8 24) " + t.S + ")", "(_ FloatingPoint 8 24)"}
	}
	return Term{"((_ to_fp 11 53) " + t.S + ")", "(_ FloatingPoint 11 53)"}
}

// ensureIntHelpers defines tdiv/tmod (Go truncated division) in int mode.
func (c *Ctx) ensureIntHelpers() {
	if c.uf["tdiv"] {
		return
	}
	c.uf["tdiv"] = true
	c.raw("(define-fun tdiv ((a Int) (b Int)) Int (ite (>= a 0) (ite (> b 0) (div a b) (- (div a (- b)))) (ite (> b 0) (- (div (- a) b)) (div (- a) (- b)))))")
	c.raw("(define-fun tmod ((a Int) (b Int)) Int (- a (* b (tdiv a b))))")
}

func (c *Ctx) wrapInt(x Term, t types.Type) Term {
	lo, hi, ok := typeRange(t)
	if !ok {
		return x
	}
	w := new(big.Int).Add(new(big.Int).Sub(hi, lo), big.NewInt(1))
	if lo.Sign() == 0 {
		if ub, _, ok := c.bitsOf(x); ok && ub <= w.BitLen()-1 {
			return x // already in range
		}
		r := app(SInt, "mod", x, IntLit(SInt, w))
		c.setBits(r, w.BitLen()-1, 0)
		return r
	}
	half := new(big.Int).Neg(lo)
	return app(SInt, "-", app(SInt, "mod", app(SInt, "+", x, IntLit(SInt, half)), IntLit(SInt, w)), IntLit(SInt, half))
}

func (c *Ctx) inRange(x Term, t types.Type) Term {
	lo, hi, ok := typeRange(t)
	if !ok {
		return TTrue
	}
	return And(app(SBool, "<=", IntLit(SInt, lo), x), app(SBool, "<=", x, IntLit(SInt, hi)))
}

func isSigned(t types.Type) bool {
	b, ok := under(t).(*types.Basic)
	if !ok {
		return true
	}
	_, s, ok := intInfo(b)
	return ok && s
}

func widthOf(t types.Type) int {
	b, ok := under(t).(*types.Basic)
	if !ok {
		return 64
	}
	w, _, ok := intInfo(b)
	if !ok {
		return 64
	}
	return w
}

func litInt(t Term) (*big.Int, bool) {
	s := t.S
	if strings.HasPrefix(s, "#x") {
		v, ok := new(big.Int).SetString(s[2:], 16)
		return v, ok
	}
	if strings.HasPrefix(s, "#b") {
		v, ok := new(big.Int).SetString(s[2:], 2)
		return v, ok
	}
	if strings.HasPrefix(s, "(- ") && !strings.ContainsAny(s[3:len(s)-1], " (") {
		v, ok := new(big.Int).SetString(s[3:len(s)-1], 10)
		if ok {
			v.Neg(v)
		}
		return v, ok
	}
	if len(s) > 0 && s[0] >= '0' && s[0] <= '9' {
		v, ok := new(big.Int).SetString(s, 10)
		return v, ok
	}
	return nil, false
}

// intBinop implements Go's integer binary operators on operands of type t (the shift count may have another type).
// st is used for obligations (division by zero, overflow); pos for reporting.
func (c *Ctx) intBinop(st *State, op token.Token, a, b Term, t types.Type, bt types.Type, pos token.Pos) Term {
	signed := isSigned(t)
	w := widthOf(t)
	if c.mode == ModeBV {
		srt := bvSort(w)
		switch op {
		case token.ADD:
			return app(srt, "bvadd", a, b)
		case token.SUB:
			return app(srt, "bvsub", a, b)
		case token.MUL:
			return app(srt, "bvmul", a, b)
		case token.QUO, token.REM:
			c.oblige(st, "div", "nonzero", pos, Not(Eq(b, IntLit64(srt, 0))), "division by zero")
			if op == token.QUO {
				if signed {
					return app(srt, "bvsdiv", a, b)
				}
				return app(srt, "bvudiv", a, b)
			}
			if signed {
				return app(srt, "bvsrem", a, b)
			}
			if _, isLit := litInt(b); !isLit && c.fc != nil && c.fc.Opts["uf-mod"] != "" {
				// unsigned remainder by a variable divisor kept uninterpreted: congruence and result < divisor only
				fn := fmt.Sprintf("go.urem.%d", w)
				if !c.uf[fn] {
					c.declareUF(fn, []string{srt, srt}, srt)
					c.raw(fmt.Sprintf("(assert (forall ((a %s) (b %s)) (! (=> (not (= b %s)) (bvult (%s a b) b)) :pattern ((%s a b)))))", srt, srt, IntLit64(srt, 0).S, fn, fn))
					c.trusted["unsigned % by a variable divisor is an uninterpreted function with the fact result < divisor only (opt uf-mod)"] = true
				}
				return app(srt, fn, a, b)
			}
			return app(srt, "bvurem", a, b)
		case token.AND:
			return app(srt, "bvand", a, b)
		case token.OR:
			return app(srt, "bvor", a, b)
		case token.XOR:
			return app(srt, "bvxor", a, b)
		case token.AND_NOT:
			return app(srt, "bvand", a, app(srt, "bvnot", b))
		case token.SHL, token.SHR:
			// bring the count to width w
			bw := bvWidth(b.Sort)
			cnt := b
			var big Term = TFalse
			if bt != nil && isSigned(bt) {
				c.oblige(st, "shift", "nonneg", pos, app(SBool, "bvsge", b, IntLit64(b.Sort, 0)), "negative shift count")
			}
			if bw < w {
				cnt = Term{fmt.Sprintf("((_ zero_extend %d) %s)", w-bw, b.S), srt}
			} else if bw > w {
				big = app(SBool, "bvuge", b, IntLit64(b.Sort, int64(w)))
				cnt = Term{fmt.Sprintf("((_ extract %d 0) %s)", w-1, b.S), srt}
			}
			var r Term
			switch {
			case op == token.SHL:
				r = Ite(big, IntLit64(srt, 0), app(srt, "bvshl", a, cnt))
			case signed:
				r = Ite(big, app(srt, "bvashr", a, IntLit64(srt, int64(w-1))), app(srt, "bvashr", a, cnt))
			default:
				r = Ite(big, IntLit64(srt, 0), app(srt, "bvlshr", a, cnt))
			}
			return r
		}
		unsupp("bv binop %s", op)
	}
	// ---- int mode
	finish := func(x Term) Term {
		if signed {
			if c.fc != nil && c.fc.Opts["wrap"] != "" {
				// "opt wrap" = exact two's-complement wrap-around for every signed type; "opt wrap int32 ..." only for the listed ones
				w := c.fc.Opts["wrap"]
				if w == "true" || strings.Contains(" "+w+" ", " "+types.TypeString(under(t), nil)+" ") {
					return c.wrapInt(x, t)
				}
			}
			nx := c.nameIfBig(x, "ar")
			c.oblige(st, "overflow", "", pos, c.inRange(nx, t), "signed arithmetic stays in range")
			return nx
		}
		// unsigned: exact wrap-around; avoid the mod when the result is provably in range syntactically
		return c.wrapInt(x, t)
	}
	switch op {
	case token.ADD:
		return finish(app(SInt, "+", a, b))
	case token.SUB:
		return finish(app(SInt, "-", a, b))
	case token.MUL:
		return finish(app(SInt, "*", a, b))
	case token.QUO, token.REM:
		c.oblige(st, "div", "nonzero", pos, Not(Eq(b, Term{"0", SInt})), "division by zero")
		if !signed {
			if op == token.QUO {
				return app(SInt, "div", a, b)
			}
			return app(SInt, "mod", a, b)
		}
		if k, isLit := litInt(b); isLit && k.Sign() > 0 {
			// constant positive divisor: linear form of Go's truncated division
			q := Ite(app(SBool, ">=", a, Term{"0", SInt}), app(SInt, "div", a, b), app(SInt, "-", app(SInt, "div", app(SInt, "-", a), b)))
			if op == token.QUO {
				return q
			}
			return app(SInt, "-", a, app(SInt, "*", b, q))
		}
		if c.fc != nil && c.fc.Opts["uf-mod"] != "" {
			// variable divisor kept uninterpreted (congruence only) with the range facts of a non-negative dividend
			if !c.uf["go.tdiv"] {
				c.declareUF("go.tdiv", []string{SInt, SInt}, SInt)
				c.declareUF("go.tmod", []string{SInt, SInt}, SInt)
				c.raw("(assert (forall ((a Int) (b Int)) (! (=> (and (>= a 0) (> b 0)) (and (<= 0 (go.tmod a b)) (< (go.tmod a b) b))) :pattern ((go.tmod a b)))))")
				c.raw("(assert (forall ((a Int) (b Int)) (! (=> (and (>= a 0) (> b 0)) (and (<= 0 (go.tdiv a b)) (<= (go.tdiv a b) a))) :pattern ((go.tdiv a b)))))")
				c.trusted["signed / and % by a variable divisor are uninterpreted functions with range facts only (opt uf-mod)"] = true
			}
			if op == token.QUO {
				return app(SInt, "go.tdiv", a, b)
			}
			return app(SInt, "go.tmod", a, b)
		}
		c.ensureIntHelpers()
		if op == token.QUO {
			return app(SInt, "tdiv", a, b) // MinInt/-1 overflow ignored (wraps to MinInt in Go)
		}
		return app(SInt, "tmod", a, b)
	case token.SHR:
		if k, ok := litInt(b); ok && k.IsInt64() {
			if k.Int64() >= int64(w) {
				if signed {
					return Ite(app(SBool, "<", a, Term{"0", SInt}), Term{"(- 1)", SInt}, Term{"0", SInt})
				}
				return Term{"0", SInt}
			}
			r := app(SInt, "div", a, IntLit(SInt, pow2(int(k.Int64()))))
			if ub, _, ok := c.bitsOf(a); ok && !signed {
				nb := ub - int(k.Int64())
				if nb < 0 {
					nb = 0
				}
				c.setBits(r, nb, 0)
			}
			return r
		}
	case token.SHL:
		if k, ok := litInt(b); ok && k.IsInt64() {
			if k.Int64() >= int64(w) {
				return Term{"0", SInt}
			}
			x := app(SInt, "*", a, IntLit(SInt, pow2(int(k.Int64()))))
			if ub, lz, ok := c.bitsOf(a); ok && !signed && ub+int(k.Int64()) <= w {
				// no bits shifted out: exact without the wrap-around mod
				c.setBits(x, ub+int(k.Int64()), lz+int(k.Int64()))
				return x
			}
			return c.wrapInt(x, t)
		}
	case token.AND:
		if m, ok := litInt(b); ok {
			return c.andConst(a, m, w, signed)
		}
		if m, ok := litInt(a); ok {
			return c.andConst(b, m, w, signed)
		}
	case token.OR:
		if !signed {
			// disjoint bit ranges: a | b == a + b
			if ua, la, ok1 := c.bitsOf(a); ok1 {
				if ub, lb, ok2 := c.bitsOf(b); ok2 && (la >= ub || lb >= ua) {
					r := app(SInt, "+", a, b)
					mx, mn := ua, la
					if ub > mx {
						mx = ub
					}
					if lb < mn {
						mn = lb
					}
					c.setBits(r, mx, mn)
					return r
				}
			}
		}
		if m, ok := litInt(b); ok && !signed {
			return c.orConst(a, m, w)
		}
		if m, ok := litInt(a); ok && !signed {
			return c.orConst(b, m, w)
		}
	case token.AND_NOT:
		if m, ok := litInt(b); ok && !signed {
			full := new(big.Int).Sub(pow2(w), big.NewInt(1))
			return c.andConst(a, new(big.Int).AndNot(full, m), w, signed)
		}
	}
	// generic bit operation: uninterpreted, deterministic, result in the type's range
	name := fmt.Sprintf("go.%s.%d.%v", map[token.Token]string{token.AND: "and", token.OR: "or", token.XOR: "xor", token.AND_NOT: "andnot",
		token.SHL: "shl", token.SHR: "shr"}[op], w, signed)
	if strings.Contains(name, "go..") {
		unsupp("int binop %s", op)
	}
	if !c.uf[name] {
		c.declareUF(name, []string{SInt, SInt}, SInt)
		lo, hi, _ := typeRange(t)
		c.raw(fmt.Sprintf("(assert (forall ((a Int) (b Int)) (! (and (<= %s (%s a b)) (<= (%s a b) %s)) :pattern ((%s a b)))))",
			IntLit(SInt, lo).S, name, name, IntLit(SInt, hi).S, name))
		switch op {
		case token.SHR:
			if !signed {
				c.raw(fmt.Sprintf("(assert (forall ((a Int) (b Int)) (! (=> (and (>= a 0) (>= b 0)) (<= (%s a b) a)) :pattern ((%s a b)))))", name, name))
			}
		case token.AND:
			if !signed {
				c.raw(fmt.Sprintf("(assert (forall ((a Int) (b Int)) (! (=> (and (>= a 0) (>= b 0)) (and (<= (%s a b) a) (<= (%s a b) b))) :pattern ((%s a b)))))", name, name, name))
			}
		}
	}
	return app(SInt, name, a, b)
}

// bit-range tracking (int mode): a term with entry (ub, lz) is known to satisfy 0 <= t < 2^ub and t ≡ 0 (mod 2^lz).
func (c *Ctx) bitsOf(t Term) (ub, lz int, ok bool) {
	if v, isLit := litInt(t); isLit && v.Sign() >= 0 {
		if v.Sign() == 0 {
			return 0, 64, true
		}
		return v.BitLen(), int(v.TrailingZeroBits()), true
	}
	b, ok := c.bitInfo[t.S]
	return b[0], b[1], ok
}

func (c *Ctx) setBits(t Term, ub, lz int) {
	if c.bitInfo == nil {
		c.bitInfo = map[string][2]int{}
	}
	c.bitInfo[t.S] = [2]int{ub, lz}
}

// noteUnsigned records the bit width of a value of unsigned Go type t.
func (c *Ctx) noteUnsigned(x Term, t types.Type) {
	if c.mode != ModeInt || t == nil {
		return
	}
	if b, ok := under(t).(*types.Basic); ok {
		if w, signed, isInt := intInfo(b); isInt && !signed {
			if _, _, have := c.bitsOf(x); !have {
				c.setBits(x, w, 0)
			}
		}
	}
}

func (c *Ctx) bit(x Term, k int) Term {
	if k == 0 {
		return app(SInt, "mod", x, Term{"2", SInt})
	}
	return app(SInt, "mod", app(SInt, "div", x, IntLit(SInt, pow2(k))), Term{"2", SInt})
}

func (c *Ctx) andConst(x Term, m *big.Int, w int, signed bool) Term {
	if m.Sign() < 0 {
		m = new(big.Int).Add(m, pow2(w))
	}
	if m.Sign() == 0 {
		return Term{"0", SInt}
	}
	// low mask 2^k-1
	k := m.BitLen()
	if new(big.Int).Add(m, big.NewInt(1)).Cmp(pow2(k)) == 0 {
		return app(SInt, "mod", x, IntLit(SInt, pow2(k)))
	}
	// high-part mask: contiguous bits [lo,k)
	lo := int(m.TrailingZeroBits())
	contiguous := new(big.Int).Add(new(big.Int).Rsh(m, uint(lo)), big.NewInt(1)).Cmp(pow2(k-lo)) == 0
	if contiguous {
		return app(SInt, "*", app(SInt, "mod", app(SInt, "div", x, IntLit(SInt, pow2(lo))), IntLit(SInt, pow2(k-lo))), IntLit(SInt, pow2(lo)))
	}
	var parts []Term
	for i := 0; i < k; i++ {
		if m.Bit(i) == 1 {
			parts = append(parts, app(SInt, "*", c.bit(x, i), IntLit(SInt, pow2(i))))
		}
	}
	return app(SInt, "+", parts...)
}

func (c *Ctx) orConst(x Term, m *big.Int, w int) Term {
	if m.Sign() == 0 {
		return x
	}
	// x | m = x + sum over set bits k of m where bit k of x is clear
	parts := []Term{x}
	for i := 0; i < m.BitLen(); i++ {
		if m.Bit(i) == 1 {
			parts = append(parts, app(SInt, "*", app(SInt, "-", Term{"1", SInt}, c.bit(x, i)), IntLit(SInt, pow2(i))))
		}
	}
	return app(SInt, "+", parts...)
}

func (c *Ctx) intCompare(op token.Token, a, b Term, t types.Type) Term {
	if c.mode == ModeBV && isBV(a.Sort) {
		signed := isSigned(t)
		var o string
		switch op {
		case token.LSS:
			o = "bvult"
			if signed {
				o = "bvslt"
			}
		case token.LEQ:
			o = "bvule"
			if signed {
				o = "bvsle"
			}
		case token.GTR:
			o = "bvugt"
			if signed {
				o = "bvsgt"
			}
		case token.GEQ:
			o = "bvuge"
			if signed {
				o = "bvsge"
			}
		}
		return app(SBool, o, a, b)
	}
	o := map[token.Token]string{token.LSS: "<", token.LEQ: "<=", token.GTR: ">", token.GEQ: ">="}[op]
	return app(SBool, o, a, b)
}

func (c *Ctx) floatCompare(op token.Token, a, b Term) Term {
	if c.mode != ModeBV {
		name := "f64." + map[token.Token]string{token.LSS: "lt", token.LEQ: "le", token.GTR: "gt", token.GEQ: "ge", token.EQL: "eq", token.NEQ: "ne"}[op]
		c.declareUF(name, []string{SF64, SF64}, SBool)
		return app(SBool, name, a, b)
	}
	fa, fb := toFP(a), toFP(b)
	switch op {
	case token.LSS:
		return app(SBool, "fp.lt", fa, fb)
	case token.LEQ:
		return app(SBool, "fp.leq", fa, fb)
	case token.GTR:
		return app(SBool, "fp.gt", fa, fb)
	case token.GEQ:
		return app(SBool, "fp.geq", fa, fb)
	case token.EQL:
		return app(SBool, "fp.eq", fa, fb)
	case token.NEQ:
		return Not(app(SBool, "fp.eq", fa, fb))
	}
	unsupp("float compare %s", op)
	return TFalse
}

// convertInt converts integer term x of type from to type to.
func (c *Ctx) convertInt(x Term, from, to types.Type) Term {
	if c.mode == ModeBV {
		fw, tw := bvWidth(x.Sort), widthOf(to)
		switch {
		case fw == tw:
			return x
		case fw > tw:
			return Term{fmt.Sprintf("((_ extract %d 0) %s)", tw-1, x.S), bvSort(tw)}
		case isSigned(from):
			return Term{fmt.Sprintf("((_ sign_extend %d) %s)", tw-fw, x.S), bvSort(tw)}
		default:
			return Term{fmt.Sprintf("((_ zero_extend %d) %s)", tw-fw, x.S), bvSort(tw)}
		}
	}
	flo, fhi, ok1 := typeRange(from)
	tlo, thi, ok2 := typeRange(to)
	if ok1 && ok2 && flo.Cmp(tlo) >= 0 && fhi.Cmp(thi) <= 0 {
		return x
	}
	if v, ok := litInt(x); ok && ok2 && v.Cmp(tlo) >= 0 && v.Cmp(thi) <= 0 {
		return x
	}
	return c.wrapInt(x, to)
}

// ---------------------------------------------------------------------------------------------
// expressions

func (c *Ctx) eval(st *State, e ast.Expr) Val {
	if tv, ok := c.pkg.info.Types[e]; ok && tv.Value != nil && tv.Type != nil {
		return c.constVal(tv.Value, tv.Type, e.Pos())
	}
	switch x := e.(type) {
	case *ast.ParenExpr:
		return c.eval(st, x.X)
	case *ast.Ident:
		return c.evalIdent(st, x)
	case *ast.BasicLit:
		unsupp("literal without constant value at %s", c.posStr(e.Pos()))
	case *ast.BinaryExpr:
		return c.evalBinary(st, x)
	case *ast.UnaryExpr:
		return c.evalUnary(st, x)
	case *ast.CallExpr:
		return c.evalCall(st, x)
	case *ast.IndexExpr:
		return c.evalIndex(st, x)
	case *ast.SliceExpr:
		return c.evalSliceExpr(st, x)
	case *ast.SelectorExpr:
		return c.evalSelector(st, x)
	case *ast.StarExpr:
		p := c.evalPtr(st, x.X)
		c.oblige(st, "nil", "deref", x.Pos(), Not(Eq(p.Ref, Term{"0", SInt})), "nil pointer dereference")
		return c.load(st, c.ptrPrefix(p), p.Elem, p.Ref, p.Idx)
	case *ast.CompositeLit:
		return c.evalCompositeLit(st, x)
	case *ast.FuncLit:
		return FuncRef{Lit: x, Env: st}
	case *ast.TypeAssertExpr:
		return c.evalTypeAssert(st, x, false)
	}
	unsupp("unsupported expression %T at %s", e, c.posStr(e.Pos()))
	return nil
}

func (c *Ctx) ptrPrefix(p Ptr) string { return c.elemPrefix(p.Elem) }

func (c *Ctx) evalPtr(st *State, e ast.Expr) Ptr {
	v := c.eval(st, e)
	switch p := v.(type) {
	case Ptr:
		return p
	case Scalar:
		if pt, ok := c.typeOf(e).Underlying().(*types.Pointer); ok {
			return Ptr{p.T, c.idx(0), pt.Elem()}
		}
	}
	unsupp("pointer expected at %s, got %T", c.posStr(e.Pos()), v)
	return Ptr{}
}

func (c *Ctx) evalIdent(st *State, id *ast.Ident) Val {
	obj := c.pkg.info.ObjectOf(id)
	switch o := obj.(type) {
	case *types.Nil:
		t := c.typeOf(id)
		return c.zero(t)
	case *types.Var:
		if v, ok := st.vars[o]; ok {
			if bx, isBox := v.(boxed); isBox {
				return c.load(st, c.elemPrefix(o.Type()), o.Type(), bx.Ref, c.idx(0))
			}
			return v
		}
		if o.Parent() == o.Pkg().Scope() || o.Pkg() != c.pkg.types {
			return c.globalVar(st, o)
		}
		unsupp("variable %s not in symbolic state at %s", id.Name, c.posStr(id.Pos()))
	case *types.Const:
		return c.constVal(o.Val(), o.Type(), id.Pos())
	case *types.Func:
		return FuncRef{Obj: o}
	}
	if id.Name == "nil" {
		return c.zero(c.typeOf(id))
	}
	unsupp("unsupported identifier %s at %s", id.Name, c.posStr(id.Pos()))
	return nil
}

type boxed struct {
	Ref Term
}

// globalVar models a package-level variable as an unknown but fixed value (read-only view).
func (c *Ctx) globalVar(st *State, o *types.Var) Val {
	key := "global:" + o.Pkg().Path() + "." + o.Name()
	if v, ok := st.ghosts[key]; ok {
		return v
	}
	if v, ok := c.entry.ghosts[key]; ok {
		st.ghosts[key] = v
		return v
	}
	if c.opaqueType(o.Type()) {
		return Opaque{o.Type()}
	}
	var facts []Term
	v := c.fresh(o.Type(), "g_"+o.Name(), &facts)
	c.entry.ghosts[key] = v
	st.ghosts[key] = v
	for _, f := range facts {
		c.axiom(f)
	}
	// sentinel errors (package-level `var ErrX = errors.New(...)`) are never nil
	if s, ok := v.(Scalar); ok && types.TypeString(o.Type(), nil) == "error" &&
		(strings.HasPrefix(o.Name(), "Err") || strings.HasPrefix(o.Name(), "err")) {
		c.axiom(app(SBool, "<", Term{"0", SInt}, s.T))
		c.trusted["package-level sentinel errors (var Err... / err...) are non-nil"] = true
	}
	return v
}

// hasValidType: go/types recorded a usable type for e (false for expressions over generated code that is absent).
func (c *Ctx) hasValidType(e ast.Expr) bool {
	tv, ok := c.pkg.info.Types[e]
	if ok && tv.Type != nil {
		return validType(tv.Type)
	}
	if id, isId := e.(*ast.Ident); isId {
		if o := c.pkg.info.ObjectOf(id); o != nil && o.Type() != nil {
			return validType(o.Type())
		}
	}
	return false
}

func (c *Ctx) evalBinary(st *State, x *ast.BinaryExpr) Val {
	switch x.Op {
	case token.EQL, token.NEQ, token.LSS, token.LEQ, token.GTR, token.GEQ:
		// a comparison of a typed operand with an expression whose type is missing (it reads generated code that is not
		// in the tree): the untyped side is an arbitrary value of the other side's type, chosen anew at every evaluation
		// (an over-approximation: whatever the real expression yields is among the values considered).
		okX, okY := c.hasValidType(x.X), c.hasValidType(x.Y)
		if okX != okY {
			typed := x.X
			if okY {
				typed = x.Y
			}
			tt := c.typeOf(typed)
			if isStringType(tt) || isIntType(tt) || isBoolType(tt) {
				tv := c.asScalar(c.eval(st, typed), tt)
				var facts []Term
				uv := c.asScalar(c.fresh(tt, "untyped", &facts), tt)
				st.assume(c, And(facts...))
				c.trusted["an operand whose type is missing from the tree (generated code) is an arbitrary value of the other operand's type"] = true
				a, b := tv, uv
				if okY {
					a, b = uv, tv
				}
				var r Term
				switch {
				case x.Op == token.EQL:
					r = Eq(a.T, b.T)
				case x.Op == token.NEQ:
					r = Not(Eq(a.T, b.T))
				case isStringType(tt):
					r = c.strCompare(x.Op, a.T, b.T)
				default:
					r = c.intCompare(x.Op, a.T, b.T, tt)
				}
				return Scalar{r, types.Typ[types.Bool]}
			}
		}
	}
	rt := c.typeOf(x)
	switch x.Op {
	case token.LAND, token.LOR:
		a := c.asScalar(c.eval(st, x.X), rt).T
		// short-circuit: evaluate RHS under the guard so that its obligations carry it
		sub := st.clone()
		if x.Op == token.LAND {
			sub.assume(c, a)
		} else {
			sub.assume(c, Not(a))
		}
		pc0 := sub.pc.S
		bv := c.eval(sub, x.Y)
		if sub.pc.S == pc0 || !c.containsRealCall(x.Y) {
			// nothing was learned while evaluating the operand beyond range facts of loaded values: keep the caller's
			// path condition as it is (adopting them costs solver time and proves nothing)
			sub.pc = st.pc
		}
		c.adoptEffects(st, sub, a, x.Op == token.LAND)
		b := c.asScalar(bv, rt).T
		if x.Op == token.LAND {
			return Scalar{And(a, b), rt}
		}
		return Scalar{Or(a, b), rt}
	}
	av, bv := c.eval(st, x.X), c.eval(st, x.Y)
	lt := c.typeOf(x.X)
	switch x.Op {
	case token.EQL, token.NEQ:
		var r Term
		if isFloatType(lt) {
			r = c.floatCompare(token.EQL, c.asScalar(av, lt).T, c.asScalar(bv, lt).T)
		} else {
			r = c.eqValTyped(av, bv, lt, c.typeOf(x.Y))
		}
		if x.Op == token.NEQ {
			r = Not(r)
		}
		return Scalar{r, rt}
	case token.LSS, token.LEQ, token.GTR, token.GEQ:
		a, b := c.asScalar(av, lt), c.asScalar(bv, lt)
		switch {
		case isFloatType(lt):
			return Scalar{c.floatCompare(x.Op, a.T, b.T), rt}
		case isStringType(lt):
			return Scalar{c.strCompare(x.Op, a.T, b.T), rt}
		}
		return Scalar{c.intCompare(x.Op, a.T, b.T, lt), rt}
	}
	if isStringType(rt) && x.Op == token.ADD {
		c.needStr()
		c.declareUF("str.concat", []string{SStr, SStr}, SStr)
		if !c.uf["str.concat.ax"] {
			c.uf["str.concat.ax"] = true
			if c.mode == ModeInt {
				c.raw("(assert (forall ((a Str) (b Str)) (! (= (str.len (str.concat a b)) (+ (str.len a) (str.len b))) :pattern ((str.concat a b)))))")
			}
		}
		return Scalar{app(SStr, "str.concat", c.asScalar(av, rt).T, c.asScalar(bv, rt).T), rt}
	}
	if isFloatType(rt) {
		return c.floatArith(x.Op, c.asScalar(av, rt).T, c.asScalar(bv, rt).T, rt)
	}
	if !isIntType(rt) {
		unsupp("binary %s on type %s at %s", x.Op, rt, c.posStr(x.Pos()))
	}
	a := c.asScalar(av, rt)
	var bt types.Type = rt
	if x.Op == token.SHL || x.Op == token.SHR {
		bt = c.typeOf(x.Y)
	}
	b := c.asScalar(bv, bt)
	return Scalar{c.nameIfBig(c.intBinop(st, x.Op, a.T, b.T, rt, bt, x.Pos()), "b"), rt}
}

func (c *Ctx) floatArith(op token.Token, a, b Term, t types.Type) Val {
	name := "f64." + map[token.Token]string{token.ADD: "add", token.SUB: "sub", token.MUL: "mul", token.QUO: "div"}[op]
	if c.mode == ModeBV {
		// keep float arithmetic opaque but deterministic over bit patterns
		name += ".bv"
		c.declareUF(name, []string{a.Sort, a.Sort}, a.Sort)
		c.trusted["float64 arithmetic is an uninterpreted deterministic function"] = true
		return Scalar{app(a.Sort, name, a, b), t}
	}
	c.needF64()
	c.declareUF(name, []string{SF64, SF64}, SF64)
	c.trusted["float64 arithmetic is an uninterpreted deterministic function"] = true
	return Scalar{app(SF64, name, a, b), t}
}

func (c *Ctx) strCompare(op token.Token, a, b Term) Term {
	c.needStr()
	if !c.uf["str.lt"] {
		c.declareUF("str.lt", []string{SStr, SStr}, SBool)
		c.raw("(assert (forall ((a Str)) (! (not (str.lt a a)) :pattern ((str.lt a a)))))")
		c.raw("(assert (forall ((a Str) (b Str)) (! (or (str.lt a b) (str.lt b a) (= a b)) :pattern ((str.lt a b)))))")
		c.raw("(assert (forall ((a Str) (b Str)) (! (not (and (str.lt a b) (str.lt b a))) :pattern ((str.lt a b)))))")
		c.raw("(assert (forall ((a Str) (b Str) (d Str)) (! (=> (and (str.lt a b) (str.lt b d)) (str.lt a d)) :pattern ((str.lt a b) (str.lt b d)))))")
		c.trusted["string < is an axiomatised strict total order (contents not inspected)"] = true
	}
	switch op {
	case token.LSS:
		return app(SBool, "str.lt", a, b)
	case token.GTR:
		return app(SBool, "str.lt", b, a)
	case token.LEQ:
		return Not(app(SBool, "str.lt", b, a))
	case token.GEQ:
		return Not(app(SBool, "str.lt", a, b))
	}
	return TFalse
}

func (c *Ctx) eqValTyped(a, b Val, lt, rtt types.Type) Term {
	// slices can only be compared with nil
	if s, ok := a.(Slice); ok {
		return Eq(s.Ref, Term{"0", SInt})
	}
	if s, ok := b.(Slice); ok {
		return Eq(s.Ref, Term{"0", SInt})
	}
	if _, ok := a.(FuncRef); ok {
		return TFalse // a known function value is never nil
	}
	if _, ok := b.(FuncRef); ok {
		return TFalse
	}
	return c.eqVal(a, b)
}

// adoptEffects merges side effects (heap, alloc) performed in a guarded sub-evaluation back into st.
// containsRealCall: the expression calls a function (conversions and builtins such as len/cap do not count).
func (c *Ctx) containsRealCall(e ast.Expr) bool {
	found := false
	ast.Inspect(e, func(n ast.Node) bool {
		call, ok := n.(*ast.CallExpr)
		if !ok || found {
			return !found
		}
		if tv, ok := c.pkg.info.Types[call.Fun]; ok && tv.IsType() {
			return true
		}
		if id, ok := ast.Unparen(call.Fun).(*ast.Ident); ok {
			if _, isB := c.pkg.info.ObjectOf(id).(*types.Builtin); isB {
				return true
			}
		}
		found = true
		return false
	})
	return found
}

func (c *Ctx) adoptEffects(st, sub *State, guard Term, positive bool) {
	g := guard
	if !positive {
		g = Not(guard)
	}
	for k, h := range sub.heaps {
		old := c.heapGet(st, k, c.heapLeaf[k])
		if old.S != h.S {
			st.heaps[k] = c.name(Ite(g, h, old), "H_"+k)
		}
	}
	if sub.alloc.S != st.alloc.S {
		st.alloc = c.name(Ite(g, sub.alloc, st.alloc), "alloc")
	}
	for k, v := range sub.vars {
		if ov, ok := st.vars[k]; ok && !sameVal(ov, v) {
			st.vars[k] = c.iteVal(g, v, ov)
		}
	}
	for k, v := range sub.ghosts {
		if ov, ok := st.ghosts[k]; ok && !sameVal(ov, v) {
			st.ghosts[k] = c.iteVal(g, v, ov)
		}
	}
	// what was learned while evaluating the guarded operand (callee postconditions, branch facts of inlined
	// closures) holds whenever the operand was evaluated
	if sub.pc.S != st.pc.S {
		st.assume(c, Implies(g, sub.pc))
	}
}

func (c *Ctx) evalUnary(st *State, x *ast.UnaryExpr) Val {
	switch x.Op {
	case token.AND:
		return c.addressOf(st, x.X)
	case token.NOT:
		v := c.asScalar(c.eval(st, x.X), types.Typ[types.Bool])
		return Scalar{Not(v.T), v.Ty}
	case token.SUB:
		t := c.typeOf(x)
		v := c.asScalar(c.eval(st, x.X), t)
		if isFloatType(t) {
			if c.mode == ModeBV {
				return Scalar{app(v.T.Sort, "bvxor", v.T, IntLit(v.T.Sort, pow2(bvWidth(v.T.Sort)-1))), t}
			}
			c.declareUF("f64.neg", []string{SF64}, SF64)
			return Scalar{app(SF64, "f64.neg", v.T), t}
		}
		if c.mode == ModeBV {
			return Scalar{app(v.T.Sort, "bvneg", v.T), t}
		}
		return Scalar{c.intBinop(st, token.SUB, Term{"0", SInt}, v.T, t, t, x.Pos()), t}
	case token.XOR:
		t := c.typeOf(x)
		v := c.asScalar(c.eval(st, x.X), t)
		if c.mode == ModeBV {
			return Scalar{app(v.T.Sort, "bvnot", v.T), t}
		}
		lo, hi, _ := typeRange(t)
		if lo.Sign() == 0 {
			return Scalar{app(SInt, "-", IntLit(SInt, hi), v.T), t}
		}
		return Scalar{app(SInt, "-", app(SInt, "-", v.T), Term{"1", SInt}), t}
	case token.ADD:
		return c.eval(st, x.X)
	}
	unsupp("unary %s at %s", x.Op, c.posStr(x.Pos()))
	return nil
}

// ---------------------------------------------------------------------------------------------
// places (addressable locations)

type Place struct {
	heap   bool
	obj    types.Object // variable root (heap == false)
	path   []int        // struct field path inside the variable's value
	prefix string       // heap family prefix
	ref    Term
	idx    Term
	ty     types.Type
	mapKey Val // map element place
	mapRef Term
	mapTy  *types.Map
	isMap  bool
	blank  bool
}

func (c *Ctx) place(st *State, e ast.Expr) Place {
	switch x := e.(type) {
	case *ast.ParenExpr:
		return c.place(st, x.X)
	case *ast.Ident:
		if x.Name == "_" {
			return Place{blank: true}
		}
		obj := c.pkg.info.ObjectOf(x)
		v, ok := obj.(*types.Var)
		if !ok {
			unsupp("assignment to non-variable %s", x.Name)
		}
		if cur, have := st.vars[v]; have {
			if bx, isBox := cur.(boxed); isBox {
				return Place{heap: true, prefix: c.elemPrefix(v.Type()), ref: bx.Ref, idx: c.idx(0), ty: v.Type()}
			}
		}
		return Place{obj: v, ty: v.Type()}
	case *ast.StarExpr:
		p := c.evalPtr(st, x.X)
		c.oblige(st, "nil", "deref", x.Pos(), Not(Eq(p.Ref, Term{"0", SInt})), "nil pointer dereference")
		return Place{heap: true, prefix: c.ptrPrefix(p), ref: p.Ref, idx: p.Idx, ty: p.Elem}
	case *ast.IndexExpr:
		bt := c.typeOf(x.X)
		switch u := bt.Underlying().(type) {
		case *types.Slice:
			s := c.evalSlice(st, x.X)
			i := c.evalIndexTerm(st, x.Index)
			c.boundsCheck(st, i, s.Len, x.Pos())
			return Place{heap: true, prefix: c.elemPrefix(u.Elem()), ref: s.Ref, idx: c.iadd(s.Off, i), ty: u.Elem()}
		case *types.Array:
			av := c.evalArray(st, x.X)
			i := c.evalIndexTerm(st, x.Index)
			c.boundsCheck(st, i, c.idx(u.Len()), x.Pos())
			return Place{heap: true, prefix: c.elemPrefix(u.Elem()), ref: av.Ref, idx: i, ty: u.Elem()}
		case *types.Pointer:
			if at, ok := u.Elem().Underlying().(*types.Array); ok {
				p := c.evalPtr(st, x.X)
				i := c.evalIndexTerm(st, x.Index)
				c.boundsCheck(st, i, c.idx(at.Len()), x.Pos())
				_ = p
				unsupp("index through pointer to array at %s", c.posStr(x.Pos()))
			}
		case *types.Map:
			m := c.asScalar(c.eval(st, x.X), bt)
			k := c.eval(st, x.Index)
			return Place{isMap: true, mapRef: m.T, mapKey: k, mapTy: u, ty: u.Elem(), obj: nil, prefix: c.mapPrefix(u)}
		}
		unsupp("index place on %s at %s", bt, c.posStr(x.Pos()))
	case *ast.SelectorExpr:
		sel, ok := c.pkg.info.Selections[x]
		if !ok || sel.Kind() != types.FieldVal {
			unsupp("unsupported selector place at %s", c.posStr(x.Pos()))
		}
		base := c.placeOrValue(st, x.X)
		return c.walkFields(st, base, sel.Index(), x.Pos())
	}
	unsupp("unsupported assignment target %T at %s", e, c.posStr(e.Pos()))
	return Place{}
}

// placeOrValue returns a place for addressable expressions; for pointer-valued expressions that are not
// addressable (call results) it synthesises a temporary.
func (c *Ctx) placeOrValue(st *State, e ast.Expr) Place {
	switch x := e.(type) {
	case *ast.Ident, *ast.StarExpr, *ast.IndexExpr, *ast.SelectorExpr, *ast.ParenExpr:
		if id, ok := x.(*ast.Ident); ok {
			if _, isVar := c.pkg.info.ObjectOf(id).(*types.Var); !isVar {
				break
			}
			if v, ok := c.pkg.info.ObjectOf(id).(*types.Var); ok {
				if _, have := st.vars[v]; !have {
					// package-level variable
					val := c.globalVar(st, v)
					return Place{ty: v.Type(), obj: nil, blank: false, heap: false, path: nil, mapKey: val, prefix: "\x00value"}
				}
			}
		}
		if ie, ok := x.(*ast.IndexExpr); ok {
			if _, isMap := c.typeOf(ie.X).Underlying().(*types.Map); isMap {
				break
			}
		}
		if se, ok := x.(*ast.SelectorExpr); ok {
			if sel, ok := c.pkg.info.Selections[se]; !ok || sel.Kind() != types.FieldVal {
				break
			}
		}
		return c.place(st, e)
	}
	v := c.eval(st, e)
	return Place{ty: c.typeOf(e), mapKey: v, prefix: "\x00value"}
}

func (c *Ctx) isValuePlace(p Place) bool { return p.prefix == "\x00value" }

func (c *Ctx) walkFields(st *State, base Place, index []int, pos token.Pos) Place {
	cur := base
	for _, fi := range index {
		// auto-deref pointers
		if pt, ok := cur.ty.Underlying().(*types.Pointer); ok {
			pv := c.readPlace(st, cur)
			if in, isIn := pv.(Interior); isIn && in.Prefix != "" {
				// tm := &bm.timestamps; tm.min - a field of the struct that lives inside the object: same object, the
				// field's own family prefix
				cur = Place{heap: true, prefix: in.Prefix, ref: in.Ref, idx: in.Idx, ty: pt.Elem()}
				goto fields
			}
			p, isPtr := pv.(Ptr)
			if !isPtr {
				if s, isS := pv.(Scalar); isS {
					p = Ptr{s.T, c.idx(0), pt.Elem()}
				} else {
					unsupp("pointer expected in selector at %s", c.posStr(pos))
				}
			}
			c.oblige(st, "nil", "deref", pos, Not(Eq(p.Ref, Term{"0", SInt})), "nil pointer dereference")
			cur = Place{heap: true, prefix: c.ptrPrefix(p), ref: p.Ref, idx: p.Idx, ty: pt.Elem()}
		}
	fields:
		stt, ok := cur.ty.Underlying().(*types.Struct)
		if !ok {
			unsupp("field selection on non-struct %s at %s", cur.ty, c.posStr(pos))
		}
		f := stt.Field(fi)
		switch {
		case c.isValuePlace(cur):
			sv, ok := cur.mapKey.(Struct)
			if !ok {
				unsupp("field of non-struct value at %s", c.posStr(pos))
			}
			cur = Place{ty: f.Type(), mapKey: sv.F[fi], prefix: "\x00value"}
		case cur.heap:
			cur = Place{heap: true, prefix: cur.prefix + "." + f.Name(), ref: cur.ref, idx: cur.idx, ty: f.Type()}
		case cur.isMap:
			unsupp("field of map element at %s", c.posStr(pos))
		default:
			np := append(append([]int{}, cur.path...), fi)
			cur = Place{obj: cur.obj, path: np, ty: f.Type()}
		}
	}
	return cur
}

func (c *Ctx) readPlace(st *State, p Place) Val {
	switch {
	case c.isValuePlace(p):
		return p.mapKey
	case p.heap:
		if c.opaqueType(p.ty) {
			return Opaque{p.ty}
		}
		return c.load(st, p.prefix, p.ty, p.ref, p.idx)
	case p.isMap:
		return c.mapLoad(st, p)
	default:
		v, ok := st.vars[p.obj]
		if !ok {
			if vv, isVar := p.obj.(*types.Var); isVar {
				v = c.globalVar(st, vv)
			} else {
				unsupp("variable %s not in state", p.obj.Name())
			}
		}
		for _, fi := range p.path {
			sv, ok := v.(Struct)
			if !ok {
				unsupp("field path on non-struct value")
			}
			v = sv.F[fi]
		}
		return v
	}
}

func (c *Ctx) writePlace(st *State, p Place, v Val) {
	switch {
	case p.blank:
		return
	case c.isValuePlace(p):
		unsupp("assignment to non-addressable value")
	case p.heap:
		c.checkWriteCell(st, p.prefix, p.ty, p.ref, p.idx, c.curPos)
		c.store(st, p.prefix, p.ty, p.ref, p.idx, c.coerce(st, v, p.ty))
	case p.isMap:
		c.mapStore(st, p, v)
	default:
		v = c.coerce(st, v, p.ty)
		if len(p.path) == 0 {
			st.vars[p.obj] = v
			return
		}
		st.vars[p.obj] = updatePath(st.vars[p.obj], p.path, v)
	}
}

func updatePath(root Val, path []int, v Val) Val {
	if len(path) == 0 {
		return v
	}
	sv, ok := root.(Struct)
	if !ok {
		unsupp("field path on non-struct value")
	}
	n := Struct{Ty: sv.Ty, F: append([]Val{}, sv.F...)}
	n.F[path[0]] = updatePath(sv.F[path[0]], path[1:], v)
	return n
}

// coerce adapts a value to a destination type (untyped consts, nil, value->interface).
func (c *Ctx) coerce(st *State, v Val, t types.Type) Val {
	switch x := v.(type) {
	case Const:
		return c.asScalar(x, t)
	case Scalar:
		if _, ok := t.Underlying().(*types.Pointer); ok {
			return Ptr{x.T, c.idx(0), t.Underlying().(*types.Pointer).Elem()}
		}
		if _, ok := t.Underlying().(*types.Slice); ok && x.T.S == "0" {
			return c.zero(t)
		}
		return x
	case Ptr:
		if _, ok := t.Underlying().(*types.Interface); ok {
			return c.boxIface(st, x, types.NewPointer(x.Elem))
		}
	case Struct:
		if _, ok := t.Underlying().(*types.Interface); ok {
			return c.boxIface(st, x, x.Ty)
		}
	case Slice:
		if _, ok := t.Underlying().(*types.Interface); ok {
			return c.boxIface(st, x, types.NewSlice(x.Elem))
		}
	}
	return v
}

// boxIface converts a concrete value into an interface value: an Int reference. Pointers keep their object
// reference (so that x == nil works); other values become fresh non-nil references.
func (c *Ctx) boxIface(st *State, v Val, dyn types.Type) Val {
	iface := types.NewInterfaceType(nil, nil)
	switch x := v.(type) {
	case Ptr:
		// NB: an interface holding a nil pointer is non-nil in Go; this model conflates the two (flagged).
		c.trusted["interface holding a typed nil pointer is treated as nil"] = true
		// an interface value keeps only the object reference: the pointer must address a whole object (index 0)
		if x.Idx.S != c.idx(0).S {
			c.oblige(st, "subset", "whole-object-pointer", c.curPos, Or(Eq(x.Ref, Term{"0", SInt}), Eq(x.Idx, c.idx(0))),
				"pointer converted to an interface addresses a whole object, not an array element")
		}
		return Scalar{x.Ref, iface}
	}
	r := c.declare("iface", SInt)
	st.assume(c, app(SBool, "<", Term{"0", SInt}, r))
	return Scalar{r, iface}
}

func (c *Ctx) addressOf(st *State, e ast.Expr) Val {
	switch x := e.(type) {
	case *ast.ParenExpr:
		return c.addressOf(st, x.X)
	case *ast.CompositeLit:
		t := c.typeOf(x)
		v := c.evalCompositeLit(st, x)
		r := c.allocRef(st)
		c.zeroRow(st, c.elemPrefix(t), t, r)
		c.store(st, c.elemPrefix(t), t, r, c.idx(0), v)
		return Ptr{r, c.idx(0), t}
	}
	p := c.place(st, e)
	if p.heap {
		want := c.elemPrefix(p.ty)
		if p.prefix != want {
			if c.fc != nil && c.fc.Opts["only-stated"] != "" {
				c.trusted["&x.f (address of a field inside an object) is an opaque token that only contract-called callees receive; their clauses address the owning object with unbox(p, Owner)"] = true
				return Interior{p.ref, p.idx, p.prefix, p.ty}
			}
			unsupp("interior pointer &%s (prefix %s) at %s", exprString(e), p.prefix, c.posStr(e.Pos()))
		}
		return Ptr{p.ref, p.idx, p.ty}
	}
	if c.fc != nil && c.fc.Opts["only-stated"] != "" && len(p.path) > 0 {
		// &v.f of a by-value local (e.g. a range variable): an opaque token for contract-called callees, as above
		c.trusted["&x.f (address of a field inside an object) is an opaque token that only contract-called callees receive; their clauses address the owning object with unbox(p, Owner)"] = true
		return Interior{Term{"0", SInt}, c.idx(0), "", p.ty}
	}
	unsupp("address of non-heap variable at %s (variable should have been boxed)", c.posStr(e.Pos()))
	return nil
}

func exprString(e ast.Expr) string { return types.ExprString(e) }

// ---------------------------------------------------------------------------------------------
// indexing, slicing, selectors, composite literals

func (c *Ctx) evalIndexTerm(st *State, e ast.Expr) Term {
	t := c.typeOf(e)
	v := c.asScalar(c.eval(st, e), t)
	// indices are converted to int (index sort)
	if c.mode == ModeBV {
		w := bvWidth(v.T.Sort)
		if w < 64 {
			if isSigned(t) {
				return Term{fmt.Sprintf("((_ sign_extend %d) %s)", 64-w, v.T.S), bvSort(64)}
			}
			return Term{fmt.Sprintf("((_ zero_extend %d) %s)", 64-w, v.T.S), bvSort(64)}
		}
		if !isSigned(t) {
			// uint64 index >= 2^63 is out of range: bounds check below uses signed compare after this guard
			c.oblige(st, "bounds", "uint-index", e.Pos(), app(SBool, "bvsge", v.T, IntLit64(bvSort(64), 0)), "index fits int")
		}
	}
	if c.mode == ModeInt {
		return c.nameDeclared(v.T, "ix")
	}
	return v.T
}

func (c *Ctx) boundsCheck(st *State, i, n Term, pos token.Pos) {
	c.oblige(st, "bounds", "", pos, And(c.ile(c.idx(0), i), c.ilt(i, n)), "index in range")
}

func (c *Ctx) evalSlice(st *State, e ast.Expr) Slice {
	v := c.eval(st, e)
	switch s := v.(type) {
	case Slice:
		return s
	case Scalar:
		if sl, ok := c.typeOf(e).Underlying().(*types.Slice); ok && s.T.S == "0" {
			return c.zero(types.NewSlice(sl.Elem())).(Slice)
		}
	}
	unsupp("slice expected at %s, got %T", c.posStr(e.Pos()), v)
	return Slice{}
}

func (c *Ctx) evalArray(st *State, e ast.Expr) ArrayV {
	v := c.eval(st, e)
	if a, ok := v.(ArrayV); ok {
		return a
	}
	unsupp("array expected at %s, got %T", c.posStr(e.Pos()), v)
	return ArrayV{}
}

func (c *Ctx) evalIndex(st *State, x *ast.IndexExpr) Val {
	bt := c.typeOf(x.X)
	switch u := bt.Underlying().(type) {
	case *types.Slice:
		s := c.evalSlice(st, x.X)
		i := c.evalIndexTerm(st, x.Index)
		c.boundsCheck(st, i, s.Len, x.Pos())
		return c.load(st, c.elemPrefix(u.Elem()), u.Elem(), s.Ref, c.iadd(s.Off, i))
	case *types.Array:
		a := c.evalArray(st, x.X)
		i := c.evalIndexTerm(st, x.Index)
		c.boundsCheck(st, i, c.idx(u.Len()), x.Pos())
		return c.load(st, c.elemPrefix(u.Elem()), u.Elem(), a.Ref, i)
	case *types.Basic:
		if isStringType(bt) {
			s := c.asScalar(c.eval(st, x.X), bt)
			i := c.evalIndexTerm(st, x.Index)
			c.boundsCheck(st, i, app(c.idxSort(), "str.len", s.T), x.Pos())
			bs := SInt
			if c.mode == ModeBV {
				bs = bvSort(8)
			}
			return Scalar{app(bs, "str.at", s.T, i), types.Typ[types.Uint8]}
		}
	case *types.Map:
		p := c.place(st, x)
		return c.mapLoad(st, p)
	case *types.Signature:
		// generic function instantiation f[T]
		return c.eval(st, x.X)
	}
	unsupp("index on %s at %s", bt, c.posStr(x.Pos()))
	return nil
}

func (c *Ctx) evalSliceExpr(st *State, x *ast.SliceExpr) Val {
	bt := c.typeOf(x.X)
	var ref, off, length, capa Term
	var elem types.Type
	isStr := false
	switch u := bt.Underlying().(type) {
	case *types.Slice:
		s := c.evalSlice(st, x.X)
		ref, off, length, capa, elem = s.Ref, s.Off, s.Len, s.Cap, u.Elem()
	case *types.Array:
		a := c.evalArray(st, x.X)
		ref, off, length, capa, elem = a.Ref, c.idx(0), c.idx(u.Len()), c.idx(u.Len()), u.Elem()
	case *types.Pointer:
		at, ok := u.Elem().Underlying().(*types.Array)
		if !ok {
			unsupp("slice of pointer to non-array")
		}
		p := c.evalPtr(st, x.X)
		ref, off, length, capa, elem = p.Ref, c.idx(0), c.idx(at.Len()), c.idx(at.Len()), at.Elem()
	case *types.Basic:
		if !isStringType(bt) {
			unsupp("slice of %s", bt)
		}
		isStr = true
	default:
		unsupp("slice expression on %s at %s", bt, c.posStr(x.Pos()))
	}
	if isStr {
		s := c.asScalar(c.eval(st, x.X), bt)
		n := app(c.idxSort(), "str.len", s.T)
		lo, hi := c.idx(0), n
		if x.Low != nil {
			lo = c.evalIndexTerm(st, x.Low)
		}
		if x.High != nil {
			hi = c.evalIndexTerm(st, x.High)
		}
		c.oblige(st, "bounds", "substr", x.Pos(), And(c.ile(c.idx(0), lo), c.ile(lo, hi), c.ile(hi, n)), "substring bounds")
		c.declareUF("str.sub", []string{SStr, c.idxSort(), c.idxSort()}, SStr)
		if !c.uf["str.sub.ax"] {
			c.uf["str.sub.ax"] = true
			is := c.idxSort()
			if c.mode == ModeInt {
				c.raw(fmt.Sprintf("(assert (forall ((s Str) (a %s) (b %s)) (! (=> (and (<= 0 a) (<= a b) (<= b (str.len s))) (= (str.len (str.sub s a b)) (- b a))) :pattern ((str.sub s a b)))))", is, is))
				c.raw(fmt.Sprintf("(assert (forall ((s Str) (a %s) (b %s) (i %s)) (! (=> (and (<= 0 a) (<= a b) (<= b (str.len s)) (<= 0 i) (< i (- b a))) (= (str.at (str.sub s a b) i) (str.at s (+ a i)))) :pattern ((str.at (str.sub s a b) i)))))", is, is, is))
			} else {
				c.raw(fmt.Sprintf("(assert (forall ((s Str) (a %s) (b %s)) (! (=> (and (bvsle #x0000000000000000 a) (bvsle a b) (bvsle b (str.len s))) (= (str.len (str.sub s a b)) (bvsub b a))) :pattern ((str.sub s a b)))))", is, is))
				c.raw(fmt.Sprintf("(assert (forall ((s Str) (a %s) (b %s) (i %s)) (! (=> (and (bvsle #x0000000000000000 a) (bvsle a b) (bvsle b (str.len s)) (bvsle #x0000000000000000 i) (bvslt i (bvsub b a))) (= (str.at (str.sub s a b) i) (str.at s (bvadd a i)))) :pattern ((str.at (str.sub s a b) i)))))", is, is, is))
			}
		}
		return Scalar{app(SStr, "str.sub", s.T, lo, hi), bt}
	}
	lo := c.idx(0)
	hi := length
	mx := capa
	if x.Low != nil {
		lo = c.evalIndexTerm(st, x.Low)
	}
	if x.High != nil {
		hi = c.evalIndexTerm(st, x.High)
	}
	if x.Max != nil {
		mx = c.evalIndexTerm(st, x.Max)
		c.oblige(st, "bounds", "slice3", x.Pos(), And(c.ile(hi, mx), c.ile(mx, capa)), "slice max in range")
	}
	// Go: 0 <= lo <= hi <= cap (for slices) ; hi <= len for arrays/strings
	lim := capa
	c.oblige(st, "bounds", "slice", x.Pos(), And(c.ile(c.idx(0), lo), c.ile(lo, hi), c.ile(hi, lim)), "slice bounds in range")
	r := Slice{ref, c.nameIfBig(c.iadd(off, lo), "off"), c.nameIfBig(c.isub(hi, lo), "len"), c.nameIfBig(c.isub(mx, lo), "cap"), elem}
	return r
}

func (c *Ctx) evalSelector(st *State, x *ast.SelectorExpr) Val {
	// qualified identifier pkg.Name
	if id, ok := x.X.(*ast.Ident); ok {
		if _, isPkg := c.pkg.info.ObjectOf(id).(*types.PkgName); isPkg {
			obj := c.pkg.info.ObjectOf(x.Sel)
			switch o := obj.(type) {
			case *types.Const:
				return c.constVal(o.Val(), o.Type(), x.Pos())
			case *types.Var:
				return c.globalVar(st, o)
			case *types.Func:
				return FuncRef{Obj: o}
			}
			unsupp("unsupported qualified identifier %s.%s", id.Name, x.Sel.Name)
		}
	}
	sel, ok := c.pkg.info.Selections[x]
	if !ok {
		unsupp("unresolved selector %s at %s", x.Sel.Name, c.posStr(x.Pos()))
	}
	switch sel.Kind() {
	case types.FieldVal:
		base := c.placeOrValue(st, x.X)
		p := c.walkFields(st, base, sel.Index(), x.Pos())
		return c.readPlace(st, p)
	case types.MethodVal:
		fn := sel.Obj().(*types.Func)
		recv := c.eval(st, x.X)
		return FuncRef{Obj: fn, Recv: recv}
	}
	unsupp("unsupported selector kind at %s", c.posStr(x.Pos()))
	return nil
}

func (c *Ctx) evalCompositeLit(st *State, x *ast.CompositeLit) Val {
	t := c.typeOf(x)
	switch u := t.Underlying().(type) {
	case *types.Struct:
		sv := c.zero(t).(Struct)
		for i, el := range x.Elts {
			if kv, ok := el.(*ast.KeyValueExpr); ok {
				name := kv.Key.(*ast.Ident).Name
				for fi := 0; fi < u.NumFields(); fi++ {
					if u.Field(fi).Name() == name {
						if _, op := sv.F[fi].(Opaque); op {
							_ = c.evalMaybe(st, kv.Value)
							break
						}
						sv.F[fi] = c.coerce(st, c.eval(st, kv.Value), u.Field(fi).Type())
						break
					}
				}
			} else {
				if _, op := sv.F[i].(Opaque); op {
					continue
				}
				sv.F[i] = c.coerce(st, c.eval(st, el), u.Field(i).Type())
			}
		}
		return sv
	case *types.Slice:
		n := int64(len(x.Elts))
		r := c.allocRef(st)
		c.zeroRow(st, c.elemPrefix(u.Elem()), u.Elem(), r)
		for i, el := range x.Elts {
			if _, ok := el.(*ast.KeyValueExpr); ok {
				unsupp("keyed slice literal at %s", c.posStr(x.Pos()))
			}
			var v Val
			if cl, ok := el.(*ast.CompositeLit); ok && cl.Type == nil {
				v = c.evalCompositeLit(st, cl)
			} else {
				v = c.eval(st, el)
			}
			c.store(st, c.elemPrefix(u.Elem()), u.Elem(), r, c.idx(int64(i)), c.coerce(st, v, u.Elem()))
		}
		return Slice{r, c.idx(0), c.idx(n), c.idx(n), u.Elem()}
	case *types.Array:
		r := c.allocRef(st)
		c.zeroRow(st, c.elemPrefix(u.Elem()), u.Elem(), r)
		for i, el := range x.Elts {
			if _, ok := el.(*ast.KeyValueExpr); ok {
				unsupp("keyed array literal at %s", c.posStr(x.Pos()))
			}
			c.store(st, c.elemPrefix(u.Elem()), u.Elem(), r, c.idx(int64(i)), c.coerce(st, c.eval(st, el), u.Elem()))
		}
		return ArrayV{r, u.Len(), u.Elem()}
	case *types.Map:
		if len(x.Elts) == 0 {
			return c.newMap(st, t)
		}
	}
	unsupp("composite literal of type %s at %s", t, c.posStr(x.Pos()))
	return nil
}

// evalMaybe evaluates an expression whose value is not needed; failures are ignored.
func (c *Ctx) evalMaybe(st *State, e ast.Expr) (v Val) {
	defer func() {
		if r := recover(); r != nil {
			if _, ok := r.(unsupported); ok {
				v = nil
				return
			}
			panic(r)
		}
	}()
	return c.eval(st, e)
}

func (c *Ctx) evalTypeAssert(st *State, x *ast.TypeAssertExpr, commaOk bool) Val {
	unsupp("type assertion at %s", c.posStr(x.Pos()))
	return nil
}

// ---------------------------------------------------------------------------------------------
// maps (abstract): dom/val arrays keyed by the key's scalar term

func (c *Ctx) mapPrefix(m *types.Map) string {
	return smtIdent("map." + typeKey(m.Key()) + "." + typeKey(m.Elem()))
}

func (c *Ctx) mapKeySort(m *types.Map) string {
	s := c.scalarSort(m.Key())
	if s == "" {
		unsupp("map key type %s", m.Key())
	}
	return s
}

func (c *Ctx) newMap(st *State, t types.Type) Val {
	m := t.Underlying().(*types.Map)
	r := c.allocRef(st)
	ks := c.mapKeySort(m)
	domFam := c.mapPrefix(m) + "#dom"
	h := c.mapHeap(st, domFam, arraySort(ks, SBool))
	empty := Term{"((as const " + arraySort(ks, SBool) + ") false)", arraySort(ks, SBool)}
	st.heaps[domFam] = c.name(Store(h, r, empty), "M")
	lenFam := c.mapPrefix(m) + "#len"
	hl := c.mapHeap(st, lenFam, c.idxSort())
	st.heaps[lenFam] = c.name(Store(hl, r, c.idx(0)), "M")
	return Scalar{r, t}
}

func (c *Ctx) mapHeap(st *State, fam, rowSort string) Term {
	if t, ok := st.heaps[fam]; ok {
		return t
	}
	if t, ok := c.heapInit[fam]; ok {
		return t
	}
	t := c.declare("H0_"+fam, arraySort(SInt, rowSort))
	c.heapInit[fam] = t
	c.heapLeaf[fam] = "\x00map:" + rowSort
	return t
}

// Maps with scalar keys are modelled as a domain set (per map object: key -> bool), a cardinality and - for scalar
// element types - a value array. A nil map reads as empty; writing to a nil map panics.
func (c *Ctx) mapKeyTerm(p Place) Term {
	return c.asScalar(p.mapKey, p.mapTy.Key()).T
}

func (c *Ctx) mapValSort(m *types.Map) (string, bool) {
	if st, ok := m.Elem().Underlying().(*types.Struct); ok && st.NumFields() == 0 {
		return "", true // set-like map: no values
	}
	if s := c.scalarSort(m.Elem()); s != "" {
		return s, true
	}
	return "", false
}

func (c *Ctx) mapLoad(st *State, p Place) Val {
	if p.mapTy == nil {
		unsupp("map read (maps are only partially modelled)")
	}
	vs, ok := c.mapValSort(p.mapTy)
	if !ok {
		// elements that are not scalars (structs, slices ...) are not stored in the model: a read yields an arbitrary value
		// of the element type (only membership and cardinality of such maps are tracked)
		et := p.mapTy.Elem()
		if !validType(et) || c.opaqueType(et) {
			return Opaque{et}
		}
		var facts []Term
		v := c.fresh(et, "mapelem", &facts)
		c.refsBounded(v, st.alloc, &facts)
		st.assume(c, And(facts...))
		return v
	}
	if vs == "" {
		return c.zero(p.mapTy.Elem())
	}
	ks := c.mapKeySort(p.mapTy)
	k := c.mapKeyTerm(p)
	dom := Select(Select(c.mapHeap(st, p.prefix+"#dom", arraySort(ks, SBool)), p.mapRef), k)
	val := Select(Select(c.mapHeap(st, p.prefix+"#val", arraySort(ks, vs)), p.mapRef), k)
	z := c.asScalar(c.zero(p.mapTy.Elem()), p.mapTy.Elem()).T
	return Scalar{Ite(And(Not(Eq(p.mapRef, Term{"0", SInt})), dom), val, z), p.mapTy.Elem()}
}

// mapHas: k is a key of the map (false for the nil map).
func (c *Ctx) mapHas(st *State, m *types.Map, ref, k Term) Term {
	ks := c.mapKeySort(m)
	dom := Select(Select(c.mapHeap(st, c.mapPrefix(m)+"#dom", arraySort(ks, SBool)), ref), k)
	return And(Not(Eq(ref, Term{"0", SInt})), dom)
}

func (c *Ctx) mapStore(st *State, p Place, v Val) {
	if p.mapTy == nil {
		unsupp("map write (maps are only partially modelled)")
	}
	vs, ok := c.mapValSort(p.mapTy)
	if !ok {
		vs = "" // non-scalar elements are not stored (reads return arbitrary values): only membership and cardinality change
	}
	c.oblige(st, "nil", "map-write", token.NoPos, Not(Eq(p.mapRef, Term{"0", SInt})), "assignment to entry in nil map")
	ks := c.mapKeySort(p.mapTy)
	k := c.mapKeyTerm(p)
	domFam, lenFam := p.prefix+"#dom", p.prefix+"#len"
	hd := c.mapHeap(st, domFam, arraySort(ks, SBool))
	row := Select(hd, p.mapRef)
	had := Select(row, k)
	hl := c.mapHeap(st, lenFam, c.idxSort())
	oldLen := Select(hl, p.mapRef)
	st.heaps[lenFam] = c.name(Store(hl, p.mapRef, Ite(had, oldLen, c.iadd(oldLen, c.idx(1)))), "M")
	st.heaps[domFam] = c.name(Store(hd, p.mapRef, Store(row, k, TTrue)), "M")
	if vs != "" {
		valFam := p.prefix + "#val"
		hv := c.mapHeap(st, valFam, arraySort(ks, vs))
		st.heaps[valFam] = c.name(Store(hv, p.mapRef, Store(Select(hv, p.mapRef), k, c.asScalar(c.coerce(st, v, p.mapTy.Elem()), p.mapTy.Elem()).T)), "M")
	}
}
