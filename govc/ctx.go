package main

import (
	"fmt"
	"go/ast"
	"go/token"
	"go/types"
	"strings"
	"sync"
)

// Obligation is one proof obligation: decls[:NDecl] ∧ PC ∧ ¬Goal must be unsat.
type Obligation struct {
	Name     string
	Kind     string // ensures, requires, bounds, nil, div, inv-entry, inv-preserved, decreases, panic, lemma, frame, cover, overflow, unwind
	Pos      string
	NDecl    int
	PC       Term
	Goal     Term
	Cover    bool // expected sat (vacuity guard)
	Thorough bool
	Func     string
	Text     string // source text of the clause (for reports)
	Backends []string
	Timeout  int
	softDrop int // 0: full query; 1: without existential contract clauses; 2: without any quantified contract clause
	ctx      *Ctx
	// results
	Verdict Verdict
	Status  string // "discharged", "refuted", "undecided", "cover-ok", "cover-failed"
}

type inputSym struct {
	Name string // Go-level name, e.g. "src#len"
	Sym  Term
}

type Ctx struct {
	prog  *Program
	pkg   *Pkg
	mode  Mode
	decls []string
	nsym  int

	heapInit map[string]Term
	heapLeaf map[string]string

	obligs []*Obligation
	fnName string // qualified name of the function under verification
	fc     *FuncContract
	fdecl  *ast.FuncDecl

	inputs      []inputSym
	specDefined map[string]bool
	strDecl     bool
	f64Decl     bool
	strLits     map[string]Term
	trusted     map[string]bool
	counters    map[string]int
	entry       *State
	callOrd     int
	inlineDepth int
	analysingCallback bool
	closureDepth int // how many of the enclosing inlined bodies are function literals of the function under verification
	allocEntry  Term
	tier        string
	uf          map[string]bool

	fr            *frame
	usedContracts map[string]bool
	usedLemmas    map[string]bool
	famRange      map[string]string
	famRangeHi    map[string]string
	famHasRange   map[string]bool
	boxedVars     map[types.Object]bool
	deferFlags    map[*ast.DeferStmt]*types.Var
	entryParams   map[string]Val
	inputSlices   []inputSlice
	inDefer       int
	noName        int
	inlineKey     string

	footprint      []modTarget
	footprintReady bool
	freshRefs      map[string]bool
	curPos         token.Pos
	qdecl          map[int]bool
	bitInfo        map[string][2]int
	declaredSym    map[string]bool
	soft           map[int]int
	views          map[string]types.Type // heap object (by reference term) viewed as raw bytes through unsafe.Pointer: its real element type
	loopDepth      int
	pathMode       *pathEnum // non-nil while a loop body is executed in split-paths mode
	sliceQueries   bool // "opt decl-pc": emit only the declarations in the cone of influence of an obligation
	atStmtSeen     map[string]bool
	loadCache      map[string]Val
	declInfo       []declInfo
	indexMu        sync.Mutex
	declBool       bool // "opt decl-pc": name path conditions by declared constants
	goalMode       int // >0 while a clause is evaluated as a proof goal (not as an assumption)
}

func newCtx(prog *Program, pkg *Pkg, mode Mode) *Ctx {
	return &Ctx{prog: prog, pkg: pkg, mode: mode, heapInit: map[string]Term{}, heapLeaf: map[string]string{},
		specDefined: map[string]bool{}, strLits: map[string]Term{}, trusted: map[string]bool{}, counters: map[string]int{}, uf: map[string]bool{},
		freshRefs: map[string]bool{}, usedContracts: map[string]bool{}, usedLemmas: map[string]bool{}, famRange: map[string]string{}, famRangeHi: map[string]string{},
		famHasRange: map[string]bool{}, boxedVars: map[types.Object]bool{}, deferFlags: map[*ast.DeferStmt]*types.Var{}, entryParams: map[string]Val{}}
}

func (c *Ctx) sym(hint string) string {
	c.nsym++
	h := smtIdent(hint)
	if h == "" {
		h = "t"
	}
	return fmt.Sprintf("%s!%d", h, c.nsym)
}

func (c *Ctx) declare(hint, sort string) Term {
	if strings.Contains(sort, "Str") {
		c.needStr()
	}
	if strings.Contains(sort, "F64") {
		c.needF64()
	}
	s := c.sym(hint)
	c.decls = append(c.decls, fmt.Sprintf("(declare-fun %s () %s)", s, sort))
	c.markDeclared(s)
	return Term{s, sort}
}

func (c *Ctx) name(t Term, hint string) Term {
	if isAtom(t.S) || c.noName > 0 {
		return t
	}
	s := c.sym(hint)
	if strings.HasPrefix(t.Sort, "(Array") {
		// arrays are named by a declared constant plus an equation, so that the name can appear inside triggers
		// (solvers expand define-fun macros inside patterns and then reject ite/and)
		c.decls = append(c.decls, fmt.Sprintf("(declare-fun %s () %s)", s, t.Sort), fmt.Sprintf("(assert (= %s %s))", s, t.S))
		c.markDeclared(s)
		return Term{s, t.Sort}
	}
	if t.Sort == SBool && c.declBool && (hint == "pc" || hint == "cond") && !strings.Contains(t.S, "(forall") && !strings.Contains(t.S, "(exists") && !strings.Contains(t.S, "soft!") {
		// path conditions as declared constants (plus their defining equation): a negated path condition then is a unit
		// literal, and the ite-selected heaps of merged states collapse by propagation instead of search
		c.decls = append(c.decls, fmt.Sprintf("(declare-fun %s () Bool)", s), fmt.Sprintf("(assert (= %s %s))", s, t.S))
		return Term{s, t.Sort}
	}
	c.decls = append(c.decls, fmt.Sprintf("(define-fun %s () %s %s)", s, t.Sort, t.S))
	if b, ok := c.bitInfo[t.S]; ok {
		c.bitInfo[s] = b
	}
	return Term{s, t.Sort}
}

// nameDeclared names a term by a declared constant plus an equation (instead of a define-fun macro). Index terms are
// named this way: solvers normalise arithmetic inside macro-expanded terms, after which (select row (+ off <sum>)) no
// longer matches a trigger (select row (+ off k)); with an opaque constant in place of the sum it does.
func (c *Ctx) nameDeclared(t Term, hint string) Term {
	if isAtom(t.S) || c.noName > 0 {
		return t
	}
	s := c.sym(hint)
	c.decls = append(c.decls, fmt.Sprintf("(declare-fun %s () %s)", s, t.Sort), fmt.Sprintf("(assert (= %s %s))", s, t.S))
	c.markDeclared(s)
	if b, ok := c.bitInfo[t.S]; ok {
		c.bitInfo[s] = b
	}
	return Term{s, t.Sort}
}

func (c *Ctx) markDeclared(s string) {
	if c.declaredSym == nil {
		c.declaredSym = map[string]bool{}
	}
	c.declaredSym[s] = true
}

func (c *Ctx) nameIfBig(t Term, hint string) Term {
	if len(t.S) < 48 {
		return t
	}
	return c.name(t, hint)
}

func isAtom(s string) bool { return !strings.ContainsAny(s, " (") }

func (c *Ctx) axiom(t Term) {
	c.decls = append(c.decls, "(assert "+t.S+")")
}

func (c *Ctx) raw(line string) { c.decls = append(c.decls, line) }

// qfact records a quantified fact that totally defines a fresh symbol (copied rows, loop frames ...). Such facts are
// unconditional truths, so they are asserted globally rather than kept in a path condition; "light" queries drop them
// (fewer hypotheses is always sound for proving) which keeps safety obligations quantifier-free.
func (c *Ctx) qfact(st *State, t Term) {
	if c.qdecl == nil {
		c.qdecl = map[int]bool{}
	}
	c.qdecl[len(c.decls)] = true
	c.decls = append(c.decls, "(assert "+t.S+")")
}

func (c *Ctx) needStr() {
	if c.strDecl {
		return
	}
	c.strDecl = true
	is := c.idxSort()
	byteSort := SInt
	if c.mode == ModeBV {
		byteSort = bvSort(8)
	}
	c.raw("(declare-sort Str 0)")
	c.raw(fmt.Sprintf("(declare-fun str.len (Str) %s)", is))
	c.raw(fmt.Sprintf("(declare-fun str.at (Str %s) %s)", is, byteSort))
	c.raw("(declare-fun str.empty () Str)")
	if c.mode == ModeBV {
		c.raw("(assert (= (str.len str.empty) #x0000000000000000))")
		c.raw("(assert (forall ((s Str)) (! (and (bvsle #x0000000000000000 (str.len s)) (bvsle (str.len s) #x1000000000000000)) :pattern ((str.len s)))))")
		c.raw("(assert (forall ((s Str)) (! (=> (= (str.len s) #x0000000000000000) (= s str.empty)) :pattern ((str.len s)))))")
	} else {
		c.raw("(assert (= (str.len str.empty) 0))")
		c.raw("(assert (forall ((s Str)) (! (<= 0 (str.len s)) :pattern ((str.len s)))))")
		c.raw("(assert (forall ((s Str) (i Int)) (! (and (<= 0 (str.at s i)) (<= (str.at s i) 255)) :pattern ((str.at s i)))))")
		c.raw("(assert (forall ((s Str)) (! (=> (= (str.len s) 0) (= s str.empty)) :pattern ((str.len s)))))")
	}
}

func (c *Ctx) needF64() {
	if c.f64Decl {
		return
	}
	c.f64Decl = true
	c.raw("(declare-sort F64 0)")
	c.raw("(declare-fun f64.zero () F64)")
}

func (c *Ctx) strLit(s string) Term {
	c.needStr()
	if t, ok := c.strLits[s]; ok {
		return t
	}
	if s == "" {
		return c.emptyStr()
	}
	t := c.declare("lit", SStr)
	c.strLits[s] = t
	c.axiom(Eq(app(c.idxSort(), "str.len", t), c.idx(int64(len(s)))))
	if len(s) <= 64 {
		bs := SInt
		if c.mode == ModeBV {
			bs = bvSort(8)
		}
		for i := 0; i < len(s); i++ {
			c.axiom(Eq(app(bs, "str.at", t, c.idx(int64(i))), IntLit64(bs, int64(s[i]))))
		}
	}
	return t
}

// declareUF declares an uninterpreted function once.
func (c *Ctx) declareUF(name string, args []string, res string) {
	if c.uf[name] {
		return
	}
	c.uf[name] = true
	c.raw(fmt.Sprintf("(declare-fun %s (%s) %s)", name, strings.Join(args, " "), res))
}

func (c *Ctx) posStr(p token.Pos) string {
	if !p.IsValid() {
		return ""
	}
	ps := c.prog.fset.Position(p)
	return fmt.Sprintf("%s:%d", strings.TrimPrefix(ps.Filename, c.prog.root+"/"), ps.Line)
}

// oblige records an obligation: under st.pc, goal must hold.
func (c *Ctx) oblige(st *State, kind, label string, pos token.Pos, goal Term, text string) *Obligation {
	if st.dead() {
		return nil
	}
	if c.fc != nil && c.fc.Opts["only-stated"] != "" {
		// "opt only-stated": a thin contract that states only its own assertions (at-stmt / at-call / ensures / invariants)
		// about the executions that reach them; run-time faults and callee preconditions are not this contract's subject:
		// nothing is assumed in their place
		stated := kind == "ensures" || strings.HasPrefix(kind, "inv-") || (kind == "call" && (strings.Contains(label, "at-stmt") || strings.Contains(label, "at-call")))
		if !stated {
			c.trusted["only-stated contract: bounds, nil, overflow, frame and callee-precondition obligations are not generated here (the listed assertions hold for every execution that reaches them without such a fault)"] = true
			return nil
		}
	}
	c.counters[kind]++
	name := fmt.Sprintf("%s/%s#%d", c.fnName, kind, c.counters[kind])
	if label != "" {
		name += ":" + label
	}
	o := &Obligation{Name: name, Kind: kind, Pos: c.posStr(pos), NDecl: len(c.decls), PC: st.pc, Goal: goal, Func: c.fnName, Text: text, ctx: c}
	if c.fc != nil {
		if b := c.fc.Opts["backends"]; b != "" {
			o.Backends = strings.Fields(strings.ReplaceAll(b, ",", " "))
		}
		if t := c.fc.Opts["timeout"]; t != "" {
			fmt.Sscanf(t, "%d", &o.Timeout)
		}
	}
	c.obligs = append(c.obligs, o)
	return o
}

func (c *Ctx) cover(st *State, label string, pos token.Pos) {
	if st == nil {
		return
	}
	c.counters["cover"]++
	o := &Obligation{Name: fmt.Sprintf("%s/cover#%d:%s", c.fnName, c.counters["cover"], label), Kind: "cover", Pos: c.posStr(pos),
		NDecl: len(c.decls), PC: st.pc, Goal: TFalse, Cover: true, Func: c.fnName, ctx: c}
	c.obligs = append(c.obligs, o)
}

// Query renders the SMT-LIB text of an obligation.
func (o *Obligation) Query(withModel bool) string { return o.QueryOpt(withModel, false) }

// HasQFacts reports whether the full query contains droppable quantified facts.
func (o *Obligation) HasQFacts() bool {
	for i := range o.ctx.qdecl {
		if i < o.NDecl {
			return true
		}
	}
	return false
}

// HasSoft reports whether droppable quantified contract clauses precede the obligation.
func (o *Obligation) HasSoft() bool {
	for i := range o.ctx.soft {
		if i < o.NDecl {
			return true
		}
	}
	return false
}

func (o *Obligation) QueryOpt(withModel, light bool) string {
	c := o.ctx
	var b strings.Builder
	if withModel {
		b.WriteString("(set-option :produce-models true)\n")
	}
	b.WriteString("(set-logic ALL)\n")
	var keep []bool
	if c.sliceQueries && !o.Cover {
		keep = c.sliceDecls(o)
	}
	for i, d := range c.decls[:o.NDecl] {
		if keep != nil && !keep[i] {
			continue
		}
		if light && c.qdecl[i] {
			continue
		}
		if lv, ok := c.soft[i]; ok && o.softDrop > 0 && lv >= 3-o.softDrop {
			// softDrop 1: leave out clauses with existentials; softDrop 2: leave out every quantified clause
			sym := strings.Fields(d)[1]
			b.WriteString("(define-fun " + sym + " () Bool true)\n")
			continue
		}
		b.WriteString(d)
		b.WriteByte('\n')
	}
	b.WriteString("(assert " + o.PC.S + ")\n")
	b.WriteString("(assert (not " + o.Goal.S + "))\n")
	b.WriteString("(check-sat)\n")
	if withModel && len(c.inputs) > 0 {
		for _, in := range c.inputs {
			b.WriteString("(get-value (" + in.Sym.S + "))\n")
		}
	}
	return b.String()
}

// ---- cone-of-influence slicing of queries (used with declared path conditions, whose defining equations would
// otherwise all be asserted in every query) ----

type declInfo struct {
	sym   string   // symbol declared / defined by this line ("" for axioms)
	kind  byte     // 'c' declared constant, 'u' uninterpreted function or sort, 'd' define-fun, 'e' defining equation, 'a' axiom
	refs  []string // symbols of arity 0 referenced by the line (other than sym)
}

func symbolsOf(s string) []string {
	var out []string
	i := 0
	for i < len(s) {
		ch := s[i]
		if ch == '(' || ch == ')' || ch == ' ' || ch == '\n' || ch == '\t' {
			i++
			continue
		}
		j := i
		for j < len(s) && s[j] != '(' && s[j] != ')' && s[j] != ' ' && s[j] != '\n' && s[j] != '\t' {
			j++
		}
		out = append(out, s[i:j])
		i = j
	}
	return out
}

func (c *Ctx) indexDecls() {
	known := map[string]bool{}
	for i := len(c.declInfo); i < len(c.decls); i++ {
		c.declInfo = append(c.declInfo, declInfo{})
	}
	// first pass: which symbols are constants (arity 0) introduced by declare-fun / define-fun
	for i, d := range c.decls {
		f := strings.Fields(d)
		if len(f) < 3 {
			c.declInfo[i] = declInfo{kind: 'a'}
			continue
		}
		switch f[0] {
		case "(declare-fun":
			if f[2] == "()" {
				c.declInfo[i] = declInfo{sym: f[1], kind: 'c'}
				known[f[1]] = true
			} else {
				c.declInfo[i] = declInfo{sym: f[1], kind: 'u'}
			}
		case "(define-fun":
			if f[2] == "()" {
				c.declInfo[i] = declInfo{sym: f[1], kind: 'd'}
				known[f[1]] = true
			} else {
				c.declInfo[i] = declInfo{sym: f[1], kind: 'u'}
			}
		case "(assert":
			c.declInfo[i] = declInfo{kind: 'a'}
			if len(f) >= 3 && f[1] == "(=" && i > 0 && c.declInfo[i-1].kind == 'c' && c.declInfo[i-1].sym == f[2] {
				c.declInfo[i] = declInfo{sym: f[2], kind: 'e'}
			}
		default:
			c.declInfo[i] = declInfo{kind: 'u'}
		}
	}
	for i, d := range c.decls {
		di := &c.declInfo[i]
		if di.kind == 'u' || di.kind == 'c' {
			continue
		}
		seen := map[string]bool{}
		for _, s := range symbolsOf(d) {
			if known[s] && s != di.sym && !seen[s] {
				seen[s] = true
				di.refs = append(di.refs, s)
			}
		}
	}
}

func (c *Ctx) sliceDecls(o *Obligation) []bool {
	c.indexMu.Lock()
	if len(c.declInfo) != len(c.decls) {
		c.indexDecls()
	}
	c.indexMu.Unlock()
	n := o.NDecl
	reach := map[string]bool{}
	var work []string
	add := func(s string) {
		if !reach[s] {
			reach[s] = true
			work = append(work, s)
		}
	}
	defLine := map[string][]int{}
	for i := 0; i < n; i++ {
		if di := c.declInfo[i]; di.kind == 'd' || di.kind == 'e' {
			defLine[di.sym] = append(defLine[di.sym], i)
		}
	}
	for _, s := range symbolsOf(o.PC.S + " " + o.Goal.S) {
		add(s)
	}
	keep := make([]bool, n)
	axiomDone := make([]bool, n)
	for {
		for len(work) > 0 {
			s := work[len(work)-1]
			work = work[:len(work)-1]
			for _, i := range defLine[s] {
				for _, r := range c.declInfo[i].refs {
					add(r)
				}
			}
		}
		// axioms that talk about a reachable symbol join the cone (and pull in the other symbols they mention)
		grew := false
		for i := 0; i < n; i++ {
			di := c.declInfo[i]
			if di.kind != 'a' || axiomDone[i] {
				continue
			}
			hit := len(di.refs) == 0
			for _, r := range di.refs {
				if reach[r] {
					hit = true
					break
				}
			}
			if hit {
				axiomDone[i] = true
				keep[i] = true
				for _, r := range di.refs {
					if !reach[r] {
						add(r)
						grew = true
					}
				}
			}
		}
		if !grew && len(work) == 0 {
			break
		}
	}
	for i := 0; i < n; i++ {
		di := c.declInfo[i]
		switch di.kind {
		case 'u':
			keep[i] = true
		case 'c', 'd', 'e':
			keep[i] = reach[di.sym]
		}
	}
	return keep
}

func (c *Ctx) typeDecl(n *types.Named) *TypeDecl {
	if n.Obj() == nil || n.Obj().Pkg() == nil {
		return nil
	}
	p := c.prog.byPath[n.Obj().Pkg().Path()]
	if p != nil && p.contracts != nil {
		if td := p.contracts.Types[n.Obj().Name()]; td != nil {
			return td
		}
	}
	// declarations for types of packages that carry no contract file (e.g. "os.File"), keyed by qualified name
	q := n.Obj().Pkg().Name() + "." + n.Obj().Name()
	for _, pk := range c.prog.pkgs {
		if pk.contracts != nil {
			if td := pk.contracts.Types[q]; td != nil {
				return td
			}
		}
	}
	return nil
}

// ghostVarDecl finds a file-level ghost variable declared in any loaded contract file.
func (c *Ctx) ghostVarDecl(name string) *GhostField {
	for _, pk := range c.prog.pkgs {
		if pk.contracts == nil {
			continue
		}
		for i := range pk.contracts.GhostVars {
			if pk.contracts.GhostVars[i].Name == name {
				return &pk.contracts.GhostVars[i]
			}
		}
	}
	return nil
}

// ghostVar returns the current value of a ghost variable in st (created unconstrained at function entry).
func (c *Ctx) ghostVar(st *State, g *GhostField) Val {
	key := "gv:" + g.Name
	if v, ok := st.ghosts[key]; ok {
		return v
	}
	if v, ok := c.entry.ghosts[key]; ok {
		st.ghosts[key] = v
		return v
	}
	var facts []Term
	v := c.fresh(c.resolveTypeText(g.Type), "ghost_"+g.Name, &facts)
	for _, f := range facts {
		c.axiom(f)
	}
	c.entry.ghosts[key] = v
	st.ghosts[key] = v
	return v
}

var basicByName = map[string]types.Type{
	"int": types.Typ[types.Int], "int8": types.Typ[types.Int8], "int16": types.Typ[types.Int16], "int32": types.Typ[types.Int32],
	"int64": types.Typ[types.Int64], "uint": types.Typ[types.Uint], "uint8": types.Typ[types.Uint8], "byte": types.Typ[types.Uint8],
	"uint16": types.Typ[types.Uint16], "uint32": types.Typ[types.Uint32], "uint64": types.Typ[types.Uint64], "bool": types.Typ[types.Bool],
	"string": types.Typ[types.String], "float64": types.Typ[types.Float64], "float32": types.Typ[types.Float32], "rune": types.Typ[types.Int32],
	"uintptr": types.Typ[types.Uintptr], "error": types.Universe.Lookup("error").Type(),
}

func (c *Ctx) resolveTypeText(s string) types.Type {
	s = strings.TrimSpace(s)
	if t, ok := basicByName[s]; ok {
		return t
	}
	if strings.HasPrefix(s, "[]") {
		return types.NewSlice(c.resolveTypeText(s[2:]))
	}
	if strings.HasPrefix(s, "*") {
		return types.NewPointer(c.resolveTypeText(s[1:]))
	}
	if s == "struct{}" {
		return types.NewStruct(nil, nil)
	}
	if strings.HasPrefix(s, "map[") {
		// map[K]V with a bracket-free key type
		if k := strings.IndexByte(s, ']'); k > 0 {
			return types.NewMap(c.resolveTypeText(s[4:k]), c.resolveTypeText(s[k+1:]))
		}
	}
	if c.pkg != nil && c.pkg.types != nil {
		if k := strings.IndexByte(s, '.'); k > 0 {
			// qualified: find imported package by name
			for _, imp := range c.pkg.types.Imports() {
				if imp.Name() == s[:k] {
					if o := imp.Scope().Lookup(s[k+1:]); o != nil {
						return o.Type()
					}
				}
			}
		}
		if o := c.pkg.types.Scope().Lookup(s); o != nil {
			if tn, ok := o.(*types.TypeName); ok {
				return tn.Type()
			}
		}
	}
	unsupp("cannot resolve spec type %q", s)
	return nil
}
