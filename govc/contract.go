package main

import (
	"fmt"
	"go/ast"
	"go/token"
	"go/types"
	"strings"
)

// frame of the function body currently being executed (the verified function or an inlined callee)
type frame struct {
	loopIdx   map[ast.Node]int
	key       string
	results   []*types.Var
	retStates []*retState
	loopOrd   int
	defers    []*deferred
	fc        *FuncContract
	pkg       *Pkg
	sig       *types.Signature
}

type retState struct {
	st *State
}

type deferred struct {
	call *ast.CallExpr
	flag types.Object // synthetic bool variable: defer statement was executed
}

func (c *Ctx) applyContract(st *State, x *ast.CallExpr, pk *Pkg, fn *types.Func, fd *ast.FuncDecl, fc *FuncContract, recv Val, args []Val) Val {
	sig := fn.Type().(*types.Signature)
	return c.applyContractSig(st, x, pk, sig, fd, fc, recv, args, fullName(fn))
}

func resultNames(sig *types.Signature) []string {
	var out []string
	n := sig.Results().Len()
	for i := 0; i < n; i++ {
		nm := sig.Results().At(i).Name()
		if nm == "" || nm == "_" {
			if n == 1 {
				nm = "result"
			} else {
				nm = fmt.Sprintf("result%d", i)
			}
		}
		out = append(out, nm)
	}
	return out
}

func (c *Ctx) bindCallEnv(env *SpecEnv, sig *types.Signature, fd *ast.FuncDecl, recv Val, args []Val) {
	if sig.Recv() != nil && recv != nil {
		nm := sig.Recv().Name()
		if fd != nil && fd.Recv != nil && len(fd.Recv.List) > 0 && len(fd.Recv.List[0].Names) > 0 {
			nm = fd.Recv.List[0].Names[0].Name
		}
		if nm != "" && nm != "_" {
			env.vars[nm] = recv
		}
		env.vars["recv"] = recv
	}
	for i := 0; i < sig.Params().Len() && i < len(args); i++ {
		nm := sig.Params().At(i).Name()
		if fd != nil {
			// prefer declaration names (interface method signatures may omit them)
			k := 0
			for _, f := range fd.Type.Params.List {
				for _, n := range f.Names {
					if k == i {
						nm = n.Name
					}
					k++
				}
			}
		}
		if nm != "" && nm != "_" {
			env.vars[nm] = args[i]
		}
		env.vars[fmt.Sprintf("arg%d", i)] = args[i]
	}
}

type modTarget struct {
	fam, leaf string
	ref       Term
	idx       *Term       // nil: whole row (or range when lo/hi are set)
	lo, hi    *Term       // absolute index range [lo,hi) inside the row
	ghost     *GhostField // file-level ghost variable
	all       bool        // the whole family (every object)
}

// modTargets evaluates a modifies clause expression to heap targets.
func (c *Ctx) modTargets(env *SpecEnv, cl *Clause) []modTarget {
	var out []modTarget
	add := func(prefix string, t types.Type, ref Term, idx *Term) {
		var fams [][2]string
		c.leafFamilies(prefix, t, &fams)
		for _, f := range fams {
			out = append(out, modTarget{fam: f[0], leaf: f[1], ref: ref, idx: idx})
		}
	}
	hdrOnly := false // hdr(p.f): the slice header stored in field f only, not the elements it points at
	var walk func(x SExpr)
	walk = func(x SExpr) {
		if call, ok := x.(*SCall); ok {
			if fid, ok := call.Fun.(*SIdent); ok && fid.Name == "hdr" && len(call.Args) == 1 {
				hdrOnly = true
				walk(call.Args[0])
				hdrOnly = false
				return
			}
		}
		// a, b, c lists are written as separate clauses; support "x.f" / "x" / "*x" / "x[lo:hi]"
		if u, ok := x.(*SUn); ok && u.Op == "*" {
			x = u.X
		}
		// allof(Type.field): the field of every object of that type (family-wide footprint)
		if call, ok := x.(*SCall); ok {
			if fid, ok := call.Fun.(*SIdent); ok && fid.Name == "allof" && len(call.Args) == 1 {
				if eid, isId := call.Args[0].(*SIdent); isId {
					// allof(T): every element of type T of every slice / array / pointee (e.g. allof(byte))
					et := c.resolveTypeTextIn(eid.Name, env.pkg)
					if eid.Name == "byte" || eid.Name == "rune" {
						et = types.Universe.Lookup(eid.Name).Type() // families are keyed by the spelling the source uses
					}
					var fams [][2]string
					c.leafFamilies(c.elemPrefix(et), et, &fams)
					for _, f := range fams {
						out = append(out, modTarget{fam: f[0], leaf: f[1], all: true})
					}
					return
				}
				sel, ok := call.Args[0].(*SSel)
				tid, ok2 := (interface{})(nil), false
				if ok {
					tid, ok2 = sel.X.(*SIdent)
				}
				if !ok || !ok2 {
					env.fail("modifies: allof(Type.field) expected")
				}
				t := c.resolveTypeTextIn(tid.(*SIdent).Name, env.pkg)
				stt, isSt := t.Underlying().(*types.Struct)
				if !isSt {
					env.fail("modifies: allof needs a struct type")
				}
				var ft types.Type
				for i := 0; i < stt.NumFields(); i++ {
					if stt.Field(i).Name() == sel.Name {
						ft = stt.Field(i).Type()
					}
				}
				if ft == nil {
					if nt, isN := t.(*types.Named); isN {
						if td := c.typeDecl(nt); td != nil {
							for _, g := range td.Ghost {
								if g.Name == sel.Name {
									ft = c.resolveTypeText(g.Type)
								}
							}
						}
					}
				}
				if ft == nil {
					env.fail("modifies: allof: no field %s", sel.Name)
				}
				var fams [][2]string
				c.leafFamilies(c.elemPrefix(t)+"."+sel.Name, ft, &fams)
				for _, f := range fams {
					out = append(out, modTarget{fam: f[0], leaf: f[1], all: true})
				}
				return
			}
		}
		if id, ok := x.(*SIdent); ok {
			if _, bound := env.vars[id.Name]; !bound {
				if g := c.ghostVarDecl(id.Name); g != nil {
					out = append(out, modTarget{ghost: g})
					return
				}
			}
		}
		if sl, ok := x.(*SSlice); ok {
			base, isSl := env.eval(sl.X).(Slice)
			if !isSl {
				env.fail("modifies: range target needs a slice")
			}
			lo, hi := base.Off, c.iadd(base.Off, base.Len)
			if sl.Lo != nil {
				lo = c.iadd(base.Off, env.idxTerm(env.eval(sl.Lo)))
			}
			if sl.Hi != nil {
				hi = c.iadd(base.Off, env.idxTerm(env.eval(sl.Hi)))
			}
			var fams [][2]string
			c.leafFamilies(c.elemPrefix(base.Elem), base.Elem, &fams)
			for _, f := range fams {
				l, h := lo, hi
				out = append(out, modTarget{fam: f[0], leaf: f[1], ref: base.Ref, lo: &l, hi: &h})
			}
			return
		}
		// field target through pointer: x.f
		if s, ok := x.(*SSel); ok {
			base := env.eval(s.X)
			if sc, ok := base.(Scalar); ok {
				if n, td := c.ghostOwner(sc.Ty); td != nil {
					for _, g := range td.Ghost {
						if g.Name == s.Name {
							idx := c.idx(0)
							add(c.elemPrefix(n)+"."+s.Name, c.resolveTypeText(g.Type), sc.T, &idx)
							return
						}
					}
				}
			}
			if _, isPtr := base.(Ptr); !isPtr {
				// nested struct value reached through a pointer (p.a.b.f) or a promoted field of an embedded struct
				if pre, ty, ref, idx, ok := c.structLoc(env, s.X); ok {
					if names, ft := fieldPath(ty, s.Name); ft != nil {
						i := idx
						add(pre+"."+strings.Join(names, "."), ft, ref, &i)
						if sl, ok := ft.Underlying().(*types.Slice); ok && !c.opaqueType(ft) && !hdrOnly {
							if cur, ok := env.eval(x).(Slice); ok {
								add(c.elemPrefix(sl.Elem()), sl.Elem(), cur.Ref, nil)
							}
						}
						return
					}
				}
			}
			if p, ok := base.(Ptr); ok {
				stt, ok := p.Elem.Underlying().(*types.Struct)
				if !ok {
					env.fail("modifies: %s is not a struct pointer", sexprString(s.X))
				}
				prefix := c.ptrPrefix(p)
				var ft types.Type
				for i := 0; i < stt.NumFields(); i++ {
					if stt.Field(i).Name() == s.Name {
						ft = stt.Field(i).Type()
					}
				}
				if ft == nil {
					// promoted through embedded structs
					if names, pft := fieldPath(p.Elem, s.Name); pft != nil && len(names) > 1 {
						idx := p.Idx
						add(prefix+"."+strings.Join(names, "."), pft, p.Ref, &idx)
						if sl, ok := pft.Underlying().(*types.Slice); ok && !c.opaqueType(pft) && !hdrOnly {
							if cur, ok := env.eval(x).(Slice); ok {
								add(c.elemPrefix(sl.Elem()), sl.Elem(), cur.Ref, nil)
							}
						}
						return
					}
				}
				if ft == nil {
					if nt, ok := p.Elem.(*types.Named); ok {
						if td := c.typeDecl(nt); td != nil {
							for _, g := range td.Ghost {
								if g.Name == s.Name {
									ft = c.resolveTypeText(g.Type)
								}
							}
						}
					}
				}
				if ft == nil {
					env.fail("modifies: no field %s", s.Name)
				}
				idx := p.Idx
				add(prefix+"."+s.Name, ft, p.Ref, &idx)
				// slice-typed field: its current contents too
				if sl, ok := ft.Underlying().(*types.Slice); ok && !c.opaqueType(ft) && !hdrOnly {
					cur := env.fieldOf(p, s.Name).(Slice)
					add(c.elemPrefix(sl.Elem()), sl.Elem(), cur.Ref, nil)
				}
				return
			}
		}
		v := env.eval(x)
		switch s := v.(type) {
		case Slice:
			add(c.elemPrefix(s.Elem), s.Elem, s.Ref, nil)
		case ArrayV:
			add(c.elemPrefix(s.Elem), s.Elem, s.Ref, nil)
		case Ptr:
			idx := s.Idx
			add(c.ptrPrefix(s), s.Elem, s.Ref, &idx)
		default:
			env.fail("modifies: unsupported target %s (%T)", sexprString(x), v)
		}
	}
	walk(cl.Expr)
	return out
}

func (c *Ctx) applyContractSig(st *State, x *ast.CallExpr, pk *Pkg, sig *types.Signature, fd *ast.FuncDecl, fc *FuncContract,
	recv Val, args []Val, name string) Val {
	c.callOrd++
	ord := c.callOrd
	short := fc.Key
	if fc.Assumed {
		c.trusted[fmt.Sprintf("assumed contract %s.%s: %s", fc.Pkg, fc.Key, fc.AssumedWhy)] = true
	} else {
		c.usedContracts[fc.Pkg+"."+fc.Key] = true
	}
	// "opt calls-back p ...": the callee invokes the function value passed as parameter p, any number of times, on
	// arguments of its choosing. A function literal passed there is analysed like a loop body: what it assigns (captured
	// variables, heap) is arbitrary from here on, and its body is run once from that arbitrary state on arbitrary
	// arguments, so that the statement-level assertions attached to it are checked for every invocation.
	if cb := fc.Opts["calls-back"]; cb != "" && sig != nil {
		for i := 0; i < sig.Params().Len() && i < len(args); i++ {
			hit := false
			for _, n := range strings.Fields(cb) {
				if n == sig.Params().At(i).Name() {
					hit = true
				}
			}
			if !hit {
				continue
			}
			fr, ok := args[i].(FuncRef)
			if !ok || fr.Lit == nil {
				unsupp("calls-back parameter %s of %s is not given a function literal at %s", sig.Params().At(i).Name(), short, c.posStr(x.Pos()))
			}
			c.invokeCallback(st, fr.Lit.(*ast.FuncLit), x.Pos())
		}
	}
	pre := st.clone()
	env := c.newEnv(pre, pre)
	env.pkg = pk
	c.bindCallEnv(env, sig, fd, recv, args)
	for j, cl := range fc.Requires {
		c.goalMode++
		goal := env.boolTerm(cl.Expr)
		c.goalMode--
		goal = Implies(And(env.facts...), goal)
		label := fmt.Sprintf("call%d:%s.requires#%d", ord, short, j+1)
		if cl.Label != "" {
			label += ":" + cl.Label
		}
		c.oblige(st, "call", label, x.Pos(), goal, cl.Text)
	}
	// a callee declared "opt may-panic" may leave through a panic instead of returning: that path jumps to the end
	// of the running frame (where deferred functions run) with the exceptional-exit flag set and no effects applied
	if fc.Opts["may-panic"] != "" && c.fr != nil {
		p := c.declare("panics", SBool)
		ps := st.clone()
		ps.assume(c, p)
		ps.ghosts["$panic"] = Scalar{TTrue, tBool}
		c.fr.retStates = append(c.fr.retStates, &retState{ps})
		st.assume(c, Not(p))
	}
	// havoc the modifies footprint
	for _, cl := range fc.Modifies {
		for _, t := range c.modTargets(env, cl) {
			c.checkCalleeTarget(st, t, x.Pos(), short)
			if t.ghost != nil {
				var gf []Term
				st.ghosts["gv:"+t.ghost.Name] = c.fresh(c.resolveTypeText(t.ghost.Type), "ghost_"+t.ghost.Name, &gf)
				st.assume(c, And(gf...))
				continue
			}
			if t.all {
				c.heap0(t.fam, t.leaf) // registers the family (leaf sort) if this is its first use
				nh := c.declare("H_"+t.fam, c.famSort(t.leaf))
				c.rangeAxiomHeap(nh, t.fam)
				st.heaps[t.fam] = nh
				continue
			}
			h := c.heapGet(st, t.fam, t.leaf)
			if t.lo != nil {
				old := c.name(Select(h, t.ref), "orow")
				row := c.declare("mrow", arraySort(c.idxSort(), t.leaf))
				c.rangeAxiomRow(row, t.fam)
				lo, hi := *t.lo, *t.hi
				c.qfact(st, c.forallIdx(func(i Term) Term {
					return Implies(Or(c.ilt(i, lo), c.ile(hi, i)), Eq(Select(row, i), Select(old, i)))
				}))
				st.heaps[t.fam] = c.name(Store(h, t.ref, row), "H_"+t.fam)
			} else if t.idx == nil {
				row := c.declare("mrow", arraySort(c.idxSort(), t.leaf))
				c.rangeAxiomRow(row, t.fam)
				st.heaps[t.fam] = c.name(Store(h, t.ref, row), "H_"+t.fam)
			} else {
				v := c.declare("mcell", t.leaf)
				c.rangeAxiomCell(st, v, t.fam)
				st.heaps[t.fam] = c.name(Store(h, t.ref, Store(Select(h, t.ref), *t.idx, v)), "H_"+t.fam)
			}
		}
	}
	if !fc.Pure {
		na := c.declare("alloc", SInt)
		st.assume(c, app(SBool, "<=", st.alloc, na))
		st.alloc = na
	}
	// results
	var facts []Term
	var rvals []Val
	rn := resultNames(sig)
	for i := 0; i < sig.Results().Len(); i++ {
		rt := sig.Results().At(i).Type()
		if !validType(rt) || c.opaqueType(rt) {
			rvals = append(rvals, Opaque{rt})
			continue
		}
		rv := c.fresh(rt, "ret_"+rn[i], &facts)
		rvals = append(rvals, rv)
		c.refsBounded(rv, st.alloc, &facts)
	}
	st.assume(c, And(facts...))
	post := c.newEnv(st, pre)
	post.pkg = pk
	c.bindCallEnv(post, sig, fd, recv, args)
	for i, nm := range rn {
		post.vars[nm] = rvals[i]
		post.vars[fmt.Sprintf("result%d", i)] = rvals[i]
	}
	if len(rvals) == 1 {
		post.vars["result"] = rvals[0]
	}
	for _, cl := range fc.TrustedEnsures {
		c.trusted[fmt.Sprintf("trusted postcondition of %s.%s: %s", fc.Pkg, fc.Key, cl.Text)] = true
	}
	for _, cl := range append(append([]*Clause{}, fc.Ensures...), fc.TrustedEnsures...) {
		if cl.Thorough && c.tier != "thorough" {
			continue // not proved in this tier, so not assumed either
		}
		t := post.boolTerm(cl.Expr)
		st.assume(c, And(post.facts...))
		st.assumeSoft(c, t)
		post.facts = nil
	}
	switch len(rvals) {
	case 0:
		return Tuple{}
	case 1:
		return rvals[0]
	}
	return Tuple{rvals}
}

// structLoc: heap location (family prefix, struct type, object, index) of a struct-valued spec expression that is
// a (chain of) field(s) of a pointed-to struct.
func (c *Ctx) structLoc(env *SpecEnv, x SExpr) (string, types.Type, Term, Term, bool) {
	if p, ok := env.eval(x).(Ptr); ok {
		return c.ptrPrefix(p), p.Elem, p.Ref, p.Idx, true
	}
	s, ok := x.(*SSel)
	if !ok {
		return "", nil, Term{}, Term{}, false
	}
	pre, ty, ref, idx, ok := c.structLoc(env, s.X)
	if !ok {
		return "", nil, Term{}, Term{}, false
	}
	names, ft := fieldPath(ty, s.Name)
	if ft == nil {
		return "", nil, Term{}, Term{}, false
	}
	if _, isSt := ft.Underlying().(*types.Struct); !isSt {
		return "", nil, Term{}, Term{}, false
	}
	return pre + "." + strings.Join(names, "."), ft, ref, idx, true
}

// fieldPath resolves field name in struct type t, following embedded structs: the field names on the way and the
// field's type (nil when absent or reached through an embedded pointer).
func fieldPath(t types.Type, name string) ([]string, types.Type) {
	obj, index, _ := types.LookupFieldOrMethod(t, true, nil, name)
	if obj == nil {
		// unexported fields of other packages: look up with the declaring package
		if n, ok := t.(*types.Named); ok && n.Obj().Pkg() != nil {
			obj, index, _ = types.LookupFieldOrMethod(t, true, n.Obj().Pkg(), name)
		}
	}
	v, ok := obj.(*types.Var)
	if !ok || !v.IsField() {
		return nil, nil
	}
	var names []string
	cur := t
	for _, i := range index {
		st, ok := cur.Underlying().(*types.Struct)
		if !ok {
			return nil, nil // through an embedded pointer: a different object
		}
		f := st.Field(i)
		names = append(names, f.Name())
		cur = f.Type()
	}
	return names, v.Type()
}

// refsBounded: every reference inside v is an allocated object (<= alloc).
func (c *Ctx) refsBounded(v Val, alloc Term, facts *[]Term) {
	switch s := v.(type) {
	case Ptr:
		*facts = append(*facts, app(SBool, "<=", s.Ref, alloc))
	case Slice:
		*facts = append(*facts, app(SBool, "<=", s.Ref, alloc))
	case ArrayV:
		*facts = append(*facts, app(SBool, "<=", s.Ref, alloc))
	case Struct:
		for _, f := range s.F {
			c.refsBounded(f, alloc, facts)
		}
	case Tuple:
		for _, f := range s.Vs {
			c.refsBounded(f, alloc, facts)
		}
	}
}

// rangeAxiomRow: in int mode, integer rows introduced by havoc keep their Go type's range.
func (c *Ctx) rangeAxiomRow(row Term, fam string) {
	if c.mode != ModeInt {
		return
	}
	lo, hi, ok := c.famRange[fam], c.famRangeHi[fam], c.famHasRange[fam]
	if !ok {
		return
	}
	c.raw(fmt.Sprintf("(assert (forall ((i Int)) (! (and (<= %s (select %s i)) (<= (select %s i) %s)) :pattern ((select %s i)))))",
		lo, row.S, row.S, hi, row.S))
}

func (c *Ctx) rangeAxiomCell(st *State, v Term, fam string) {
	if c.mode != ModeInt {
		return
	}
	if !c.famHasRange[fam] {
		if v.Sort == SInt {
			st.assume(c, app(SBool, "<=", Term{"0", SInt}, v))
		}
		return
	}
	st.assume(c, And(app(SBool, "<=", Term{c.famRange[fam], SInt}, v), app(SBool, "<=", v, Term{c.famRangeHi[fam], SInt})))
}

// ---------------------------------------------------------------------------------------------
// inlining

func (c *Ctx) inlineCall(st *State, x *ast.CallExpr, pk *Pkg, fd *ast.FuncDecl, recv Val, args []Val) Val {
	save := c.pkg
	c.pkg = pk
	defer func() { c.pkg = save }()
	obj := pk.info.Defs[fd.Name].(*types.Func)
	sig := obj.Type().(*types.Signature)
	var fc *FuncContract
	if pk.contracts != nil {
		fc = pk.contracts.Funcs[funcKey(fd)]
	}
	c.inlineKey = funcKey(fd)
	defer func() { c.inlineKey = "" }()
	return c.inlineBodyFC(st, fd.Type, fd.Body, fd.Recv, recv, args, sig, x.Pos(), fc)
}

func (c *Ctx) inlineBody(st *State, ft *ast.FuncType, body *ast.BlockStmt, recvFL *ast.FieldList, recv Val, args []Val, sig *types.Signature, pos token.Pos) Val {
	return c.inlineBodyFC(st, ft, body, recvFL, recv, args, sig, pos, nil)
}

func (c *Ctx) inlineBodyFC(st *State, ft *ast.FuncType, body *ast.BlockStmt, recvFL *ast.FieldList, recv Val, args []Val,
	sig *types.Signature, pos token.Pos, fc *FuncContract) Val {
	c.inlineDepth++
	defer func() { c.inlineDepth-- }()
	saved := c.fr
	c.fr = &frame{fc: fc, pkg: c.pkg, sig: sig, key: c.inlineKey, loopIdx: numberLoops(body)}
	defer func() { c.fr = saved }()
	c.initDefers(st, body)
	c.bindParams(st, ft, recvFL, recv, args)
	c.declareResults(st, ft, sig)
	out := c.execBlock(st, body.List)
	end := c.finishFrame(out.normal, body.End())
	if end == nil || end.dead() {
		st.pc = TFalse
		return c.deadValue(sig)
	}
	// a panic that no deferred recover() cleared propagates into the caller's frame
	if pf := c.panicFlag(end); pf.S != "false" && saved != nil {
		ps := end.clone()
		ps.assume(c, pf)
		if !ps.dead() {
			saved.retStates = append(saved.retStates, &retState{ps})
		}
		end.assume(c, Not(pf))
		end.ghosts["$panic"] = Scalar{TFalse, tBool}
	}
	*st = *end
	return c.resultValue(st)
}

// panicFlag is the exceptional-exit flag of a state (a callee with "opt may-panic" may set it).
func (c *Ctx) panicFlag(st *State) Term {
	if v, ok := st.ghosts["$panic"].(Scalar); ok {
		return v.T
	}
	return TFalse
}

func (c *Ctx) deadValue(sig *types.Signature) Val {
	var facts []Term
	switch sig.Results().Len() {
	case 0:
		return Tuple{}
	case 1:
		rt := sig.Results().At(0).Type()
		if !validType(rt) || c.opaqueType(rt) {
			return Opaque{rt}
		}
		return c.fresh(rt, "dead", &facts)
	}
	t := Tuple{}
	for i := 0; i < sig.Results().Len(); i++ {
		rt := sig.Results().At(i).Type()
		if !validType(rt) || c.opaqueType(rt) {
			t.Vs = append(t.Vs, Opaque{rt})
			continue
		}
		t.Vs = append(t.Vs, c.fresh(rt, "dead", &facts))
	}
	return t
}

func (c *Ctx) resultValue(st *State) Val {
	switch len(c.fr.results) {
	case 0:
		return Tuple{}
	case 1:
		return st.vars[c.fr.results[0]]
	}
	t := Tuple{}
	for _, r := range c.fr.results {
		t.Vs = append(t.Vs, st.vars[r])
	}
	return t
}

func (c *Ctx) bindParams(st *State, ft *ast.FuncType, recvFL *ast.FieldList, recv Val, args []Val) {
	if recvFL != nil && len(recvFL.List) > 0 && len(recvFL.List[0].Names) > 0 {
		if obj := c.pkg.info.Defs[recvFL.List[0].Names[0]]; obj != nil {
			c.declVar(st, obj, recv)
		}
	}
	i := 0
	for _, f := range ft.Params.List {
		if len(f.Names) == 0 {
			i++
			continue
		}
		for _, n := range f.Names {
			if obj := c.pkg.info.Defs[n]; obj != nil && n.Name != "_" && i < len(args) {
				c.declVar(st, obj, args[i])
			}
			i++
		}
	}
}

// declVar binds a variable, boxing it on the heap when its address is taken somewhere in the function.
func (c *Ctx) declVar(st *State, obj types.Object, v Val) {
	if c.boxedVars[obj] {
		r := c.allocRef(st)
		t := obj.Type()
		c.zeroRow(st, c.elemPrefix(t), t, r)
		if v != nil {
			c.store(st, c.elemPrefix(t), t, r, c.idx(0), c.coerce(st, v, t))
		}
		st.vars[obj] = boxed{r}
		return
	}
	if v == nil {
		v = c.zero(obj.Type())
	}
	st.vars[obj] = c.coerce(st, v, obj.Type())
}

func (c *Ctx) declareResults(st *State, ft *ast.FuncType, sig *types.Signature) {
	c.fr.results = nil
	if ft.Results == nil {
		return
	}
	k := 0
	for _, f := range ft.Results.List {
		if len(f.Names) == 0 {
			v := types.NewVar(token.NoPos, c.pkg.types, fmt.Sprintf("result%d", k), sig.Results().At(k).Type())
			c.fr.results = append(c.fr.results, v)
			st.vars[v] = c.zeroOrOpaque(v.Type())
			k++
			continue
		}
		for _, n := range f.Names {
			obj, _ := c.pkg.info.Defs[n].(*types.Var)
			if obj == nil || n.Name == "_" {
				obj = types.NewVar(token.NoPos, c.pkg.types, fmt.Sprintf("result%d", k), sig.Results().At(k).Type())
			}
			c.fr.results = append(c.fr.results, obj)
			if c.boxedVars[obj] {
				c.declVar(st, obj, nil)
			} else {
				st.vars[obj] = c.zeroOrOpaque(obj.Type())
			}
			k++
		}
	}
}

func (c *Ctx) zeroOrOpaque(t types.Type) Val {
	if !validType(t) || c.opaqueType(t) {
		return Opaque{t}
	}
	return c.zero(t)
}

// finishFrame merges the fall-through state (functions without results) with all return states and runs defers.
func (c *Ctx) finishFrame(normal *State, endPos token.Pos) *State {
	var end *State
	if normal != nil && !normal.dead() {
		if len(c.fr.results) > 0 && c.fr.sig != nil && c.fr.sig.Results().Len() > 0 {
			// falling off the end of a function with results is impossible in compiled Go
		}
		end = normal
	}
	for _, r := range c.fr.retStates {
		if end == nil {
			end = r.st
		} else {
			end = c.merge(end, r.st)
		}
	}
	if end == nil {
		return nil
	}
	// deferred calls, LIFO
	for i := len(c.fr.defers) - 1; i >= 0; i-- {
		d := c.fr.defers[i]
		flag := c.asScalar(end.vars[d.flag], tBool).T
		if flag.S == "false" {
			continue
		}
		run := end.clone()
		run.assume(c, flag)
		skip := end.clone()
		skip.assume(c, Not(flag))
		c.execDeferred(run, d.call)
		end = c.merge(run, skip)
	}
	return end
}

func (c *Ctx) execDeferred(st *State, call *ast.CallExpr) {
	c.inDefer++
	defer func() { c.inDefer-- }()
	c.evalCall(st, call)
}

// invokeCallback: see "opt calls-back" in applyContractSig.
func (c *Ctx) invokeCallback(st *State, lit *ast.FuncLit, pos token.Pos) {
	c.analysingCallback = true
	li := c.analyseLoop(lit.Body)
	c.analysingCallback = false
	head := c.havocLoop(st, li)
	*st = *head
	sig, _ := c.typeOf(lit).(*types.Signature)
	if sig == nil {
		unsupp("callback without a signature at %s", c.posStr(pos))
	}
	run := st.clone()
	var facts []Term
	var args []Val
	for i := 0; i < sig.Params().Len(); i++ {
		t := sig.Params().At(i).Type()
		if !validType(t) || c.opaqueType(t) {
			args = append(args, Opaque{t})
			continue
		}
		v := c.fresh(t, "cb_"+sig.Params().At(i).Name(), &facts)
		c.refsBounded(v, run.alloc, &facts)
		args = append(args, v)
	}
	run.assume(c, And(facts...))
	c.closureDepth++
	c.trusted["a callback passed to a callee that invokes it is run once from an arbitrary state on arbitrary arguments; its effects on the caller's state are arbitrary"] = true
	c.inlineBody(run, lit.Type, lit.Body, nil, nil, args, sig, pos)
	c.closureDepth--
}
