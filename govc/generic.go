package main

import (
	"go/types"
	"sync"
)

// Generic code is verified for one instantiation of its type parameters ("instantiate N int64" in the contract).
// Every generic declaration has its own *types.TypeParam objects, so a process-wide table keyed by the object is
// unambiguous even when several functions are translated concurrently.
var (
	tpMu    sync.RWMutex
	tpSubst = map[*types.TypeParam]types.Type{}
	// tpByName: instantiation requested by name for the declarations of one package ("pkgpath.N")
	tpByName = map[string]types.Type{}
)

func setTypeParamByName(pkgPath, name string, t types.Type) {
	tpMu.Lock()
	defer tpMu.Unlock()
	tpByName[pkgPath+"."+name] = t
}

func resolveTP(t types.Type) types.Type {
	tp, ok := t.(*types.TypeParam)
	if !ok {
		return t
	}
	tpMu.RLock()
	r, have := tpSubst[tp]
	tpMu.RUnlock()
	if have {
		return r
	}
	if tp.Obj() != nil && tp.Obj().Pkg() != nil {
		tpMu.RLock()
		r, have = tpByName[tp.Obj().Pkg().Path()+"."+tp.Obj().Name()]
		tpMu.RUnlock()
		if have {
			tpMu.Lock()
			tpSubst[tp] = r
			tpMu.Unlock()
			return r
		}
	}
	return t
}

// under is Underlying() after resolving instantiated type parameters.
func under(t types.Type) types.Type {
	if t == nil {
		return nil
	}
	return resolveTP(t).Underlying()
}
