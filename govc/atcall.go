package main

import (
	"fmt"
	"go/ast"
	"go/types"
	"strings"
)

// checkAtCall raises the caller-side assertions ("at-call <callee> requires <expr>") attached to calls of fn in the
// contract of the function under verification. The expression is evaluated in the caller's state at the call, with
// the caller's locals in scope; it is how protocol-order facts ("rename only after a successful sync") are stated
// without touching the code.
func (c *Ctx) checkAtCall(st *State, x *ast.CallExpr, fn *types.Func) {
	if c.fc == nil || len(c.fc.AtCall) == 0 || c.inlineDepth > 0 {
		return
	}
	var keys []string
	keys = append(keys, fn.Name())
	pkgName := ""
	if fn.Pkg() != nil {
		pkgName = fn.Pkg().Name()
		keys = append(keys, pkgName+"."+fn.Name())
	}
	if rn, _ := recvNamed(fn); rn != "" {
		keys = append(keys, rn+"."+fn.Name())
		if pkgName != "" {
			keys = append(keys, pkgName+"."+rn+"."+fn.Name())
		}
	}
	for _, k := range keys {
		for _, cl := range c.fc.AtCall[k] {
			env := c.newEnv(st, c.entry)
			env.scopePos = x.Pos()
			c.bindParamsCurrent(env)
			if strings.Contains(cl.Text, "arg") {
				// arg0, arg1, ...: the call's argument values (pure argument expressions are evaluated a second time)
				for i, a := range x.Args {
					env.vars[fmt.Sprintf("arg%d", i)] = c.eval(st, a)
				}
			}
			c.goalMode++
			t := env.boolTerm(cl.Expr)
			c.goalMode--
			label := "at-call:" + k
			if cl.Label != "" {
				label += ":" + cl.Label
			}
			c.oblige(st, "call", label, x.Pos(), Implies(And(env.facts...), t), cl.Text)
		}
	}
}

// bindParamsCurrent: nothing to bind explicitly — parameters and locals resolve through the Go scope at scopePos.
func (c *Ctx) bindParamsCurrent(env *SpecEnv) {}
