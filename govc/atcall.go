package main

import (
	"fmt"
	"go/ast"
	"go/printer"
	"go/types"
	"strings"
)

// checkAtCall raises the caller-side assertions ("at-call <callee> requires <expr>") attached to calls of fn in the
// contract of the function under verification. The expression is evaluated in the caller's state at the call, with
// the caller's locals in scope; it is how protocol-order facts ("rename only after a successful sync") are stated
// without touching the code.
func (c *Ctx) checkAtCall(st *State, x *ast.CallExpr, fn *types.Func) {
	if c.fc == nil || len(c.fc.AtCall) == 0 || c.inlineDepth > c.closureDepth {
		return
	}
	var keys []string
	keys = append(keys, fn.Name())
	pkgName := ""
	if fn.Pkg() != nil {
		pkgName = fn.Pkg().Name()
		keys = append(keys, pkgName+"."+fn.Name())
	}
	if rn, _ := recvNamed(fn); rn != "" {
		keys = append(keys, rn+"."+fn.Name())
		if pkgName != "" {
			keys = append(keys, pkgName+"."+rn+"."+fn.Name())
		}
	}
	c.checkAtCallKeys(st, x, keys)
}

// checkAtCallKeys: the same for a call known only by name (also used for built-ins such as delete).
func (c *Ctx) checkAtCallKeys(st *State, x *ast.CallExpr, keys []string) {
	if c.fc == nil || len(c.fc.AtCall) == 0 || c.inlineDepth > c.closureDepth {
		return
	}
	for _, k := range keys {
		for _, cl := range c.fc.AtCall[k] {
			env := c.newEnv(st, c.entry)
			env.scopePos = x.Pos()
			c.bindParamsCurrent(env)
			if strings.Contains(cl.Text, "arg") {
				// arg0, arg1, ...: the call's argument values (pure argument expressions are evaluated a second time)
				for i, a := range x.Args {
					env.vars[fmt.Sprintf("arg%d", i)] = c.eval(st, a)
				}
			}
			c.goalMode++
			t := env.boolTerm(cl.Expr)
			c.goalMode--
			label := "at-call:" + k
			if cl.Label != "" {
				label += ":" + cl.Label
			}
			c.oblige(st, "call", label, x.Pos(), Implies(And(env.facts...), t), cl.Text)
		}
	}
}

// bindParamsCurrent: nothing to bind explicitly — parameters and locals resolve through the Go scope at scopePos.
func (c *Ctx) bindParamsCurrent(env *SpecEnv) {}

// ---------------------------------------------------------------------------------------------
// Branching on the result of an inlined closure without merging its return paths first.
//
// `if f(a, b) || g(c) { return }` where f, g are closure literals with several `return true` / `return false` paths:
// merging the paths at the call boundary and then assuming the (negated) result leaves ite-selected heaps behind that
// the solver has to untangle for every later obligation. splitCond partitions the closure's return states by the literal
// they return, so that the then-branch continues from the "true" returns only and the else-branch from the "false"
// returns only. Sound by construction: the two states are the same disjunction of paths the merged state stood for.

func (c *Ctx) splitCond(st *State, e ast.Expr) (*State, *State, bool) {
	switch x := ast.Unparen(e).(type) {
	case *ast.UnaryExpr:
		if x.Op.String() == "!" {
			t, f, ok := c.splitCond(st, x.X)
			return f, t, ok
		}
	case *ast.BinaryExpr:
		op := x.Op.String()
		if op != "||" && op != "&&" {
			return nil, nil, false
		}
		if !c.splittable(st, x.X) && !c.splittable(st, x.Y) {
			return nil, nil, false
		}
		aT, aF := c.splitOrGeneric(st, x.X)
		if op == "||" {
			if aF.dead() {
				return aT, aF, true
			}
			bT, bF := c.splitOrGeneric(aF, x.Y)
			return c.merge(aT, bT), bF, true
		}
		if aT.dead() {
			return aT, aF, true
		}
		bT, bF := c.splitOrGeneric(aT, x.Y)
		return bT, c.merge(aF, bF), true
	case *ast.CallExpr:
		if !c.splittable(st, x) {
			return nil, nil, false
		}
		t, f := c.splitClosureCall(st, x)
		return t, f, true
	}
	return nil, nil, false
}

func (c *Ctx) splitOrGeneric(st *State, e ast.Expr) (*State, *State) {
	if t, f, ok := c.splitCond(st.clone(), e); ok {
		return t, f
	}
	work := st.clone()
	v := c.condTerm(work, e)
	t := work.clone()
	t.assume(c, v)
	work.assume(c, Not(v))
	return t, work
}

// splittable: a call of a local closure literal with a single boolean result and no defer statement in its body.
func (c *Ctx) splittable(st *State, e ast.Expr) bool {
	x, ok := ast.Unparen(e).(*ast.CallExpr)
	if !ok {
		return false
	}
	lit := c.closureLit(st, x)
	if lit == nil {
		return false
	}
	sig, ok := c.typeOf(lit).(*types.Signature)
	if !ok || sig.Results().Len() != 1 || !isBoolType(sig.Results().At(0).Type()) {
		return false
	}
	hasDefer := false
	ast.Inspect(lit.Body, func(n ast.Node) bool {
		if _, isD := n.(*ast.DeferStmt); isD {
			hasDefer = true
		}
		return !hasDefer
	})
	return !hasDefer
}

func (c *Ctx) closureLit(st *State, x *ast.CallExpr) *ast.FuncLit {
	id, ok := ast.Unparen(x.Fun).(*ast.Ident)
	if !ok {
		return nil
	}
	obj := c.pkg.info.ObjectOf(id)
	if obj == nil {
		return nil
	}
	fr, ok := st.vars[obj].(FuncRef)
	if !ok || fr.Lit == nil {
		return nil
	}
	lit, _ := fr.Lit.(*ast.FuncLit)
	return lit
}

func (c *Ctx) splitClosureCall(st *State, x *ast.CallExpr) (*State, *State) {
	lit := c.closureLit(st, x)
	sig := c.typeOf(lit).(*types.Signature)
	args := c.evalArgs(st, x, sig)
	c.inlineDepth++
	saved := c.fr
	c.fr = &frame{pkg: c.pkg, sig: sig, key: c.inlineKey, loopIdx: numberLoops(lit.Body)}
	defer func() { c.fr = saved; c.inlineDepth-- }()
	c.initDefers(st, lit.Body)
	c.bindParams(st, lit.Type, nil, nil, args)
	c.declareResults(st, lit.Type, sig)
	out := c.execBlock(st, lit.Body.List)
	var ends []*State
	if out.normal != nil && !out.normal.dead() {
		ends = append(ends, out.normal)
	}
	for _, r := range c.fr.retStates {
		if !r.st.dead() {
			ends = append(ends, r.st)
		}
	}
	var tS, fS *State
	add := func(dst **State, s *State) {
		if *dst == nil {
			*dst = s
		} else {
			*dst = c.merge(*dst, s)
		}
	}
	for _, s := range ends {
		// a panic escaping the closure propagates to the caller's frame, exactly as in inlineBodyFC
		if pf := c.panicFlag(s); pf.S != "false" && saved != nil {
			ps := s.clone()
			ps.assume(c, pf)
			if !ps.dead() {
				saved.retStates = append(saved.retStates, &retState{ps})
			}
			s.assume(c, Not(pf))
			s.ghosts["$panic"] = Scalar{TFalse, tBool}
			if s.dead() {
				continue
			}
		}
		rv, _ := s.vars[c.fr.results[0]].(Scalar)
		switch rv.T.S {
		case "true":
			add(&tS, s)
		case "false":
			add(&fS, s)
		default:
			t := s.clone()
			t.assume(c, rv.T)
			s.assume(c, Not(rv.T))
			add(&tS, t)
			add(&fS, s)
		}
	}
	dead := func() *State { d := st.clone(); d.pc = TFalse; return d }
	if tS == nil {
		tS = dead()
	}
	if fS == nil {
		fS = dead()
	}
	return tS, fS
}

// checkAtStmt raises the assertions attached ("at-stmt "<text>" requires <expr>") to simple statements of the function
// under verification, matched by their gofmt-normalised source text; evaluated in the state just before the statement.
func (c *Ctx) checkAtStmt(st *State, s ast.Stmt) {
	if c.fc == nil || len(c.fc.AtStmt) == 0 || c.inlineDepth > c.closureDepth || st.dead() {
		return
	}
	switch s.(type) {
	case *ast.AssignStmt, *ast.ExprStmt, *ast.BranchStmt, *ast.ReturnStmt, *ast.IncDecStmt:
	default:
		return
	}
	var b strings.Builder
	if err := printer.Fprint(&b, c.prog.fset, s); err != nil {
		return
	}
	text := strings.Join(strings.Fields(b.String()), " ")
	cls := c.fc.AtStmt[text]
	if len(cls) == 0 {
		return
	}
	if c.atStmtSeen == nil {
		c.atStmtSeen = map[string]bool{}
	}
	c.atStmtSeen[text] = true
	for _, cl := range cls {
		env := c.newEnv(st, c.entry)
		env.scopePos = s.Pos()
		c.goalMode++
		t := env.boolTerm(cl.Expr)
		c.goalMode--
		label := "at-stmt"
		if cl.Label != "" {
			label += ":" + cl.Label
		}
		c.oblige(st, "call", label, s.Pos(), Implies(And(env.facts...), t), cl.Text)
		// checked here, so it may be used from here on (assert, then assume)
		st.assume(c, And(env.facts...))
		st.assumeSoft(c, t)
	}
}
