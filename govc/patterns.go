package main

import (
	"sort"
	"strings"
)

// choosePatterns picks explicit triggers for a quantifier written in a contract: array reads (select R idx) whose
// index mentions a bound variable. A trigger may only contain declared symbols (solvers expand define-fun macros
// inside patterns and reject boolean structure there). Returns "" when no usable trigger exists.
func (c *Ctx) choosePatterns(body string, bound []string) string {
	isBound := map[string]bool{}
	for _, b := range bound {
		isBound[b] = true
	}
	cands := map[string]map[string]bool{} // term -> bound vars it mentions
	for i := 0; i+8 <= len(body); i++ {
		if !strings.HasPrefix(body[i:], "(select ") {
			continue
		}
		end := matchParen(body, i)
		if end < 0 {
			continue
		}
		t := body[i : end+1]
		if !patternSafe(t) || strings.Contains(t, "(forall") || strings.Contains(t, "(exists") || strings.Contains(t, "tmod") || strings.Contains(t, "tdiv") {
			continue
		}
		vars := map[string]bool{}
		ok := true
		for _, tok := range symbolTokens(t) {
			switch {
			case isBound[tok]:
				vars[tok] = true
			case strings.Contains(tok, "!"):
				if !c.declaredSym[tok] {
					ok = false
				}
			}
		}
		if !ok || len(vars) == 0 {
			continue
		}
		// the outermost select must have the bound variable in its index, not only inside the array expression
		cands[t] = vars
	}
	if len(cands) == 0 {
		return ""
	}
	terms := make([]string, 0, len(cands))
	for t := range cands {
		terms = append(terms, t)
	}
	// prefer small terms (closest to the reads that appear in the code)
	sort.Slice(terms, func(i, j int) bool {
		if len(terms[i]) != len(terms[j]) {
			return len(terms[i]) < len(terms[j])
		}
		return terms[i] < terms[j]
	})
	// drop terms that contain another candidate as a strict sub-term (nested selects): keep the inner-most useful reads
	var out []string
	if len(bound) == 1 {
		n := 0
		for _, t := range terms {
			out = append(out, ":pattern ("+t+")")
			n++
			if n >= 3 {
				break
			}
		}
		return strings.Join(out, " ")
	}
	// several bound variables: one multi-pattern that covers all of them
	covered := map[string]bool{}
	var multi []string
	for _, t := range terms {
		adds := false
		for v := range cands[t] {
			if !covered[v] {
				adds = true
			}
		}
		if adds {
			multi = append(multi, t)
			for v := range cands[t] {
				covered[v] = true
			}
		}
		if len(covered) == len(bound) {
			break
		}
	}
	if len(covered) != len(bound) {
		return ""
	}
	return ":pattern (" + strings.Join(multi, " ") + ")"
}

func matchParen(s string, i int) int {
	depth := 0
	for j := i; j < len(s); j++ {
		switch s[j] {
		case '(':
			depth++
		case ')':
			depth--
			if depth == 0 {
				return j
			}
		}
	}
	return -1
}

func symbolTokens(s string) []string {
	f := strings.FieldsFunc(s, func(r rune) bool { return r == '(' || r == ')' || r == ' ' })
	return f
}

// reindexQuant rewrites a single-variable quantifier body in which the bound variable k is used to index rows only
// through one common offset X, i.e. as (select row (+ X k)): substituting k := j - X (a bijection on the integers, so
// the formula is equivalent) turns every such read into (select row j). Triggers of that shape match any read of the
// row, whereas (+ X k) is lost as soon as the solver normalises arithmetic in the ground term.
// Returns the body unchanged when the shape does not apply.
func reindexQuant(body, k string) string {
	// collect offsets X of subterms "(+ X k)"
	suffix := " " + k + ")"
	var offs []string
	for i := 0; i+3 <= len(body); i++ {
		if !strings.HasPrefix(body[i:], "(+ ") {
			continue
		}
		end := matchParen(body, i)
		if end < 0 {
			continue
		}
		t := body[i : end+1]
		if !strings.HasSuffix(t, suffix) {
			continue
		}
		x := strings.TrimSpace(t[3 : len(t)-len(suffix)])
		if x == "" || strings.Contains(x, k) {
			continue
		}
		// x must be a single term (atom or one parenthesised term)
		if parts := splitTopLevel(x); len(parts) != 1 {
			continue
		}
		offs = append(offs, x)
	}
	if len(offs) == 0 {
		return body
	}
	x := offs[0]
	for _, o := range offs {
		if o != x {
			return body
		}
	}
	const mark = "\x00IDX\x00"
	out := strings.ReplaceAll(body, "(+ "+x+" "+k+")", mark)
	// remaining occurrences of k (guards etc.) become (- k x)
	var b strings.Builder
	for i := 0; i < len(out); {
		if strings.HasPrefix(out[i:], k) {
			j := i + len(k)
			prevOK := i == 0 || out[i-1] == ' ' || out[i-1] == '('
			nextOK := j >= len(out) || out[j] == ' ' || out[j] == ')'
			if prevOK && nextOK {
				b.WriteString("(- " + k + " " + x + ")")
				i = j
				continue
			}
		}
		b.WriteByte(out[i])
		i++
	}
	return strings.ReplaceAll(b.String(), mark, k)
}
