package main

import (
	"encoding/json"
	"fmt"
	"os"
	"path/filepath"
	"sort"
	"strconv"
	"strings"
	"sync"
	"time"
)

// propPkgs: packages (relative to the repository root) whose contract files carry obligations of a property.
var propPkgs = map[string][]string{
	"C12": {"pkg/convert", "|", "pkg/pb/v1"},
	"C11": {"pkg/encoding", "pkg/encoding/vararray"},
	"C01": {"pkg/convert", "|", "pkg/encoding", "pkg/encoding/vararray", "|", "banyand/measure", "|", "banyand/stream"},
	"C02": {"banyand/measure"},
	"C03": {"banyand/measure", "|", "banyand/stream", "|", "banyand/trace", "|", "banyand/internal/sidx"},
	"C09": {"pkg/query/logical/measure", "pkg/query/executor", "pkg/query/logical/trace", "pkg/iter", "|", "banyand/internal/sidx"},
	"C08": {"pkg/filter", "pkg/encoding", "pkg/encoding/vararray", "|", "banyand/measure", "|", "banyand/stream", "|", "banyand/internal/sidx"},
	"C05": {"banyand/internal/snapshot", "|", "banyand/measure", "|", "banyand/stream", "|", "banyand/trace"},
	"C19": {"banyand/internal/storage", "pkg/timestamp", "|", "banyand/measure", "|", "banyand/stream", "|", "banyand/trace", "|", "pkg/fs", "|", "banyand/backup"},
	"C16": {"pkg/node", "pkg/partition", "pkg/convert"},
	"C10": {"pkg/query/aggregation"},
	"C13": {"pkg/pipeline/sdk", "|", "banyand/trace", "|", "banyand/internal/sidx"},
	"C04": {"pkg/fs", "|", "banyand/measure", "|", "banyand/stream", "|", "banyand/trace"},
	"C14": {"banyand/internal/storage", "pkg/timestamp"},
	"C07": {"banyand/internal/storage", "pkg/timestamp"},
	"C06": {"banyand/internal/storage", "pkg/timestamp"},
}

type Finding struct {
	Property   string `json:"property"`
	Obligation string `json:"obligation"`
	Status     string `json:"status"`            // "open" | "fixed"
	Witness    string `json:"witness,omitempty"` // spec predicate over the function's inputs that characterises the listed failure
	What       string `json:"what"`
	Commit     string `json:"commit,omitempty"`
	Line       string `json:"line,omitempty"`
}

func loadFindings() []Finding {
	var fs []Finding
	data, err := os.ReadFile(filepath.Join(verifRoot, "known_findings.json"))
	if err != nil {
		return nil
	}
	if err := json.Unmarshal(data, &fs); err != nil {
		fmt.Fprintln(os.Stderr, "known_findings.json:", err)
		os.Exit(2)
	}
	return fs
}

type obligRecord struct {
	Name    string `json:"name"`
	Kind    string `json:"kind"`
	Status  string `json:"status"`
	Backend string `json:"backend,omitempty"`
	Ms      int64  `json:"ms"`
	Pos     string `json:"pos,omitempty"`
	Clause  string `json:"clause,omitempty"`
}

type violation struct {
	Obligation string
	Replay     string
	Suffix     string
}

func cmdCheck(args []string) int {
	if len(args) < 1 {
		usage()
	}
	prop := args[0]
	tier := "quick"
	if len(args) > 1 {
		tier = args[1]
	}
	if t := os.Getenv("VERIF_TIER"); t != "" && len(args) < 2 {
		tier = t
	}
	seed := 0
	if s := os.Getenv("VERIF_SEED"); s != "" {
		seed, _ = strconv.Atoi(s)
	}
	root := repoRoot
	if r := os.Getenv("GOVC_ROOT"); r != "" {
		root = r
	}
	start := time.Now()
	res := runCheck(root, prop, tier, nil)
	res.Seed = seed
	if tier == "thorough" && os.Getenv("GOVC_NO_SELFTEST") == "" {
		// thorough: also exercise the check against every stored change known to break this property (in-memory
		// overlay, /repo untouched); a change it does not report is a weakness of the check, noted in the evidence
		res.Selftest = runSelftest(root, prop)
		for _, s := range res.Selftest {
			switch {
			case s.Error != "":
				res.Lines = append(res.Lines, fmt.Sprintf("NOTE: self-test seed %s could not be applied: %s", s.Seed, s.Error))
			case !s.Caught:
				res.Lines = append(res.Lines, fmt.Sprintf("NOTE: self-test seed %s is NOT reported by this check", s.Seed))
			}
		}
	}
	res.Wall = time.Since(start).Seconds()
	if os.Getenv("GOVC_NO_EVIDENCE") == "" { // the seed runner checks deliberately broken trees: their runs are not evidence
		writeEvidence(res)
	}
	for _, l := range res.Lines {
		fmt.Println(l)
	}
	fmt.Printf("property=%s tier=%s functions=%d lemmas=%d obligations=%d discharged=%d covers=%d/%d violations=%d known=%d wall=%.1fs\n",
		prop, tier, res.NFuncs, res.NLemmas, res.NOblig, res.NDischarged, res.CoversOK, res.Covers, len(res.Violations), res.Known, res.Wall)
	if len(res.Violations) > 0 {
		return 1
	}
	return 0
}

type CheckResult struct {
	Prop        string
	Tier        string
	Seed        int
	Wall        float64
	Reports     []*FuncReport
	Records     []obligRecord
	NFuncs      int
	NLemmas     int
	NOblig      int
	NDischarged int
	Covers      int
	CoversOK    int
	Known       int
	SolverMs    int64
	Violations  []violation
	Lines       []string
	Trusted     map[string]bool
	Assumed     []string
	LoadErr     string
	Backends    map[string]int
	Bounded     []string
	NBounded    int
	NBoundedOK  int
	Selftest    []selftestResult
	Skipped     []string
}

// forceThoroughOnly: the must-fail self-test runs the quick tier on overlays but must still reach "thorough-only" functions
var forceThoroughOnly bool

// runCheck verifies every contract tagged with prop. overlay replaces files (mutants for the self-test).
func runCheck(root, prop, tier string, overlay map[string][]byte) *CheckResult {
	res := &CheckResult{Prop: prop, Tier: tier, Trusted: map[string]bool{}, Backends: map[string]int{}}
	rels := propPkgs[prop]
	if len(rels) == 0 {
		res.LoadErr = "no packages registered for property " + prop
		res.Violations = append(res.Violations, violation{prop + "/load", writeReplayFile(prop, "load", map[string]interface{}{"error": res.LoadErr}), "no-failing-input-found"})
		res.Lines = append(res.Lines, fmt.Sprintf("VIOLATION property=%s replay=%s no-failing-input-found", prop, res.Violations[0].Replay))
		return res
	}
	// "|" separates groups of packages that are loaded as independent programs (their contract files state
	// assumptions about the same external functions differently, and nothing in one group calls the other)
	var groups [][]string
	groups = append(groups, nil)
	for _, r := range rels {
		if r == "|" {
			groups = append(groups, nil)
			continue
		}
		groups[len(groups)-1] = append(groups[len(groups)-1], r)
	}
	var progs []*Program
	for _, g := range groups {
		prog, err := LoadProgram(root, g, overlay)
		if err != nil {
			res.LoadErr = err.Error()
			rp := writeReplayFile(prop, "load", map[string]interface{}{"error": res.LoadErr})
			res.Violations = append(res.Violations, violation{prop + "/load", rp, "no-failing-input-found"})
			res.Lines = append(res.Lines, fmt.Sprintf("VIOLATION property=%s replay=%s no-failing-input-found", prop, rp))
			return res
		}
		progs = append(progs, prog)
	}
	hasProp := func(ps []string) bool {
		for _, p := range ps {
			if p == prop {
				return true
			}
		}
		return false
	}
	type job struct {
		prog *Program
		pk   *Pkg
		fc   *FuncContract
		lm   *Lemma
	}
	var jobs []job
	for _, prog := range progs {
		for _, pk := range prog.pkgs {
			if pk.contracts == nil {
				continue
			}
			for _, key := range pk.contracts.FuncOrder {
				fc := pk.contracts.Funcs[key]
				if !hasProp(fc.Props) {
					continue
				}
				if fc.Assumed {
					res.Assumed = append(res.Assumed, pk.rel+"."+fc.Key+": "+fc.AssumedWhy)
					continue
				}
				if fc.Opts["thorough-only"] != "" && tier != "thorough" && !forceThoroughOnly {
					// obligations near the solvers' limit: verified in the thorough tier only (with its longer time limits)
					res.Skipped = append(res.Skipped, pk.rel+"."+fc.Key+" (thorough tier only: "+fc.Opts["thorough-only"]+")")
					continue
				}
				jobs = append(jobs, job{prog: prog, pk: pk, fc: fc})
			}
			for _, lm := range pk.contracts.Lemmas {
				if !hasProp(lm.Props) {
					continue
				}
				if lm.Thorough && tier != "thorough" {
					continue
				}
				jobs = append(jobs, job{prog: prog, pk: pk, lm: lm})
			}
		}
	}
	reps := make([]*FuncReport, len(jobs))
	var wg sync.WaitGroup
	sem := make(chan struct{}, 8)
	for i, j := range jobs {
		wg.Add(1)
		sem <- struct{}{}
		go func(i int, j job) {
			defer wg.Done()
			defer func() { <-sem }()
			if j.fc != nil {
				reps[i] = VerifyFunc(j.prog, j.pk, j.fc, tier)
			} else {
				reps[i] = VerifyLemma(j.prog, j.pk, j.lm, tier)
			}
		}(i, j)
	}
	wg.Wait()
	res.Reports = reps
	var all []*Obligation
	for _, r := range reps {
		if r.Contract != nil && r.Contract.Opts["bounded"] != "" {
			res.Bounded = append(res.Bounded, fmt.Sprintf("%s: %s (%d obligations inside the bound, not counted as proved)", r.Name, r.Contract.Opts["bounded"], len(r.Obligs)))
		}
		if r.Kind == "func" {
			res.NFuncs++
		} else {
			res.NLemmas++
		}
		all = append(all, r.Obligs...)
		for _, t := range r.Trusted {
			res.Trusted[t] = true
		}
	}
	solveAll(all, tier, 8)

	findings := loadFindings()
	findingFor := func(name string) *Finding {
		for i := range findings {
			if findings[i].Property == prop && findings[i].Obligation == name {
				return &findings[i]
			}
		}
		return nil
	}
	seenFinding := map[string]bool{}
	for _, r := range reps {
		if r.Err != "" {
			name := r.Name + "/subset"
			rp := writeReplayFile(prop, name, map[string]interface{}{"obligation": name, "function": r.Name,
				"reason": "function (or its contract) could not be translated: " + r.Err,
				"note":   "the contract no longer applies to the code as written; no obligation of this function can be discharged"})
			res.Violations = append(res.Violations, violation{name, rp, "no-failing-input-found"})
			res.Lines = append(res.Lines, fmt.Sprintf("VIOLATION property=%s replay=%s obligation=%s no-failing-input-found", prop, rp, name))
		}
		for _, o := range r.Obligs {
			rec := obligRecord{Name: o.Name, Kind: o.Kind, Status: o.Status, Backend: o.Verdict.Backend, Ms: o.Verdict.Ms, Pos: o.Pos, Clause: o.Text}
			res.Records = append(res.Records, rec)
			res.SolverMs += o.Verdict.Ms
			if o.Cover {
				res.Covers++
				switch o.Status {
				case "cover-ok":
					res.CoversOK++
				case "cover-failed":
					rp := writeReplayFile(prop, o.Name, map[string]interface{}{"obligation": o.Name, "reason": "vacuity: the path condition is unsatisfiable (contradictory requires / invariant)", "solver_output": o.Verdict.Output})
					res.Violations = append(res.Violations, violation{o.Name, rp, "no-failing-input-found"})
					res.Lines = append(res.Lines, fmt.Sprintf("VIOLATION property=%s replay=%s obligation=%s no-failing-input-found", prop, rp, o.Name))
				}
				continue
			}
			bounded := r.Contract != nil && r.Contract.Opts["bounded"] != ""
			if bounded {
				// a bounded stand-in is never counted as proved; a failure inside the bound is still a violation
				res.NBounded++
				if o.Status == "discharged" {
					res.NBoundedOK++
					continue
				}
			} else {
				res.NOblig++
			}
			if o.Status == "discharged" {
				res.NDischarged++
				res.Backends[o.Verdict.Backend]++
				if f := findingFor(o.Name); f != nil && f.Status == "open" {
					res.Lines = append(res.Lines, fmt.Sprintf("NOTE: known finding %s no longer reproduces (obligation discharged)", o.Name))
				}
				continue
			}
			// failed obligation
			f := findingFor(o.Name)
			if f != nil && f.Status == "open" {
				seenFinding[o.Name] = true
				ok, why := carveOut(r, o, f, tier)
				if ok {
					res.Known++
					res.NDischarged++ // discharged outside the listed witness
					res.Lines = append(res.Lines, fmt.Sprintf("KNOWN-FINDING: property=%s %s %s", prop, o.Name, f.What))
					continue
				}
				res.Lines = append(res.Lines, fmt.Sprintf("NOTE: %s fails beyond its listed known finding (%s)", o.Name, why))
			}
			info := map[string]interface{}{"obligation": o.Name, "property": prop, "function": r.Name, "kind": o.Kind, "position": o.Pos,
				"clause": o.Text, "verdict": o.Verdict.Result, "backend": o.Verdict.Backend, "backends": o.Verdict.All,
				"solver_output": truncate(o.Verdict.Output, 6000)}
			suffix := ""
			if o.Status == "refuted" && skipReplay {
				suffix = "no-failing-input-found"
				info["model"] = parseModel(o.Verdict.Output)
			} else if o.Status == "refuted" {
				rr := buildReplay(r, o)
				info["replay"] = rr
				info["model"] = parseModel(o.Verdict.Output)
				if rr.Status != "confirmed" {
					suffix = "no-failing-input-found"
				}
			} else {
				suffix = "no-failing-input-found"
				info["note"] = "no back end decided this obligation within the time limit; it is discharged on the unchanged tree"
			}
			rp := writeReplayFile(prop, o.Name, info)
			res.Violations = append(res.Violations, violation{o.Name, rp, suffix})
			line := fmt.Sprintf("VIOLATION property=%s replay=%s obligation=%s", prop, rp, o.Name)
			if suffix != "" {
				line += " " + suffix
			}
			res.Lines = append(res.Lines, line)
		}
	}
	return res
}

func truncate(s string, n int) string {
	if len(s) > n {
		return s[:n] + "..."
	}
	return s
}

// carveOut re-checks a failing obligation with the listed witness excluded: if nothing else fails, the failure is
// exactly the known finding.
func carveOut(r *FuncReport, o *Obligation, f *Finding, tier string) (bool, string) {
	if f.Witness == "" {
		return false, "finding has no witness predicate"
	}
	c := r.Ctx
	ex, err := ParseSpecExpr(f.Witness)
	if err != nil {
		return false, "witness does not parse: " + err.Error()
	}
	var wt Term
	func() {
		defer func() {
			if rec := recover(); rec != nil {
				err = fmt.Errorf("%v", rec)
			}
		}()
		env := c.newEnv(c.entry, c.entry)
		c.bindParamsEntry(env)
		c.noName++
		wt = env.boolTerm(ex)
		c.noName--
	}()
	if err != nil {
		return false, "witness does not evaluate: " + err.Error()
	}
	var b strings.Builder
	b.WriteString("(set-logic ALL)\n")
	for _, d := range c.decls {
		b.WriteString(d + "\n")
	}
	b.WriteString("(assert " + o.PC.S + ")\n(assert (not " + o.Goal.S + "))\n(assert (not " + wt.S + "))\n(check-sat)\n")
	t := 10
	if tier == "thorough" {
		t = 60
	}
	v := Solve(b.String(), t, false, nil)
	if v.Result == "unsat" {
		return true, ""
	}
	return false, "outside the witness: " + v.Result
}

func writeReplayFile(prop, name string, info map[string]interface{}) string {
	dir := filepath.Join(verifRoot, "replays", prop)
	os.MkdirAll(dir, 0o755)
	fn := strings.NewReplacer("/", "_", ":", "_", "#", "-", " ", "_").Replace(name) + ".json"
	p := filepath.Join(dir, fn)
	data, _ := json.MarshalIndent(info, "", " ")
	os.WriteFile(p, data, 0o644)
	return p
}

func writeEvidence(res *CheckResult) {
	var samples []interface{}
	var functions []string
	for _, r := range res.Reports {
		functions = append(functions, fmt.Sprintf("%s (%s, mode %s, %d obligations)", r.Name, r.Kind, r.Mode, len(r.Obligs)))
	}
	n := 0
	for _, r := range res.Reports {
		for _, o := range r.Obligs {
			if o.Cover || n >= 6 {
				continue
			}
			if o.Kind == "ensures" || o.Kind == "lemma" || o.Kind == "inv-preserved" {
				q := o.Query(false)
				samples = append(samples, map[string]interface{}{"obligation": o.Name, "clause": o.Text, "status": o.Status, "backend": o.Verdict.Backend,
					"smt_bytes": len(q), "goal": truncate(o.Goal.S, 300)})
				n++
			}
		}
	}
	if len(samples) == 0 {
		samples = append(samples, map[string]interface{}{"note": "no obligation generated", "load_error": res.LoadErr})
	}
	trusted := sortedKeys(res.Trusted)
	trusted = append(trusted, "Go compiler/runtime and go/types front end", "govc translator (guarded by covers and the must-fail self-test)",
		"SMT solvers z3 4.8.12 / z3 5.1.0 / cvc5 1.0.3")
	for _, a := range res.Assumed {
		trusted = append(trusted, "assumed contract: "+a)
	}
	assumptions := append([]string{}, trusted...)
	sort.Strings(assumptions)
	ev := map[string]interface{}{
		"property_id": res.Prop,
		"tier":        res.Tier,
		"seed":        res.Seed,
		"level":       "proof",
		"coverage": map[string]interface{}{
			"obligations":              res.NOblig,
			"discharged":               res.NDischarged,
			"checker_cmd":              "bin/check " + res.Prop + " " + res.Tier + "  (govc: VCs generated from /repo's typed AST; one SMT-LIB query per obligation raced on z3-new, z3, cvc5)",
			"trusted_base":             trusted,
			"functions_under_contract": functions,
			"functions":                res.NFuncs,
			"lemmas":                   res.NLemmas,
			"covers":                   res.Covers,
			"covers_passed":            res.CoversOK,
			"known_findings_reported":  res.Known,
			"solver_ms_total":          res.SolverMs,
			"backends":                 res.Backends,
			"per_obligation":           res.Records,
			"samples":                  samples,
			"selftest_must_fail":       res.Selftest,
			"skipped_in_this_tier":     res.Skipped,
			"bounded_standins":         res.Bounded,
			"bounded_obligations":      res.NBounded,
			"bounded_discharged":       res.NBoundedOK,
			"load_error":               res.LoadErr,
		},
		"assumptions": assumptions,
		"wall_s":      res.Wall,
		"violations":  len(res.Violations),
	}
	os.MkdirAll(filepath.Join(verifRoot, "evidence"), 0o755)
	data, _ := json.MarshalIndent(ev, "", " ")
	os.WriteFile(filepath.Join(verifRoot, "evidence", res.Prop+".json"), data, 0o644)
}
