package main

import (
	"go/token"
	"go/types"
)

// Frame checking by write location: every heap write performed by the function under verification (including
// writes of inlined callees and the modifies footprints of contract-called callees) must hit either an object
// allocated after entry or a location inside the function's own modifies footprint (evaluated at entry).
// This replaces a quantified end-of-function frame obligation by one small quantifier-free obligation per write.

func (c *Ctx) frameActive() bool { return c.fc != nil && c.footprintReady }

func (c *Ctx) isFreshRef(ref Term) bool { return c.freshRefs[ref.S] }

// covered: location (fam, ref, [lo,hi)) is inside the footprint; lo/hi nil means the whole row.
func (c *Ctx) covered(fam string, ref Term, lo, hi *Term) Term {
	// an object allocated after entry, or no object at all (the contents of a nil slice: a write through it is a nil
	// dereference and has its own obligation)
	alts := []Term{app(SBool, "<", c.allocEntry, ref), Eq(ref, Term{"0", SInt})}
	for _, t := range c.footprint {
		if t.ghost != nil || t.fam != fam {
			continue
		}
		if t.all {
			return TTrue
		}
		same := Eq(ref, t.ref)
		switch {
		case t.lo != nil:
			if lo == nil {
				continue // whole-row write is not covered by a range target
			}
			alts = append(alts, And(same, c.ile(*t.lo, *lo), c.ile(*hi, *t.hi)))
		case t.idx == nil:
			alts = append(alts, same)
		default:
			if lo == nil {
				continue
			}
			// single cell
			alts = append(alts, And(same, Eq(*lo, *t.idx), Eq(*hi, c.iadd(*t.idx, c.idx(1)))))
		}
	}
	if lo != nil {
		alts = append(alts, c.ile(*hi, *lo)) // empty range writes nothing
	}
	return Or(alts...)
}

func (c *Ctx) checkWriteCell(st *State, prefix string, t types.Type, ref, idx Term, pos token.Pos) {
	if !c.frameActive() || c.isFreshRef(ref) {
		return
	}
	var fams [][2]string
	c.leafFamilies(prefix, t, &fams)
	hi := c.iadd(idx, c.idx(1))
	var goals []Term
	for _, f := range fams {
		goals = append(goals, c.covered(f[0], ref, &idx, &hi))
	}
	if len(goals) == 0 {
		return
	}
	c.oblige(st, "frame", "write", pos, And(goals...), "write stays inside the modifies footprint ("+prefix+")")
}

func (c *Ctx) checkWriteRange(st *State, prefix string, t types.Type, ref, lo, hi Term, pos token.Pos, guard Term) {
	if !c.frameActive() || c.isFreshRef(ref) {
		return
	}
	var fams [][2]string
	c.leafFamilies(prefix, t, &fams)
	var goals []Term
	for _, f := range fams {
		goals = append(goals, c.covered(f[0], ref, &lo, &hi))
	}
	if len(goals) == 0 {
		return
	}
	c.oblige(st, "frame", "write-range", pos, Implies(guard, And(goals...)), "write stays inside the modifies footprint ("+prefix+")")
}

// checkCalleeTarget: a callee's modifies target must be inside the caller's footprint.
func (c *Ctx) checkCalleeTarget(st *State, t modTarget, pos token.Pos, callee string) {
	if !c.frameActive() {
		return
	}
	if t.ghost != nil {
		for _, f := range c.footprint {
			if f.ghost != nil && f.ghost.Name == t.ghost.Name {
				return
			}
		}
		c.oblige(st, "frame", "call:"+callee, pos, TFalse, "callee modifies ghost variable "+t.ghost.Name+" which is not in the modifies footprint")
		return
	}
	if t.all {
		for _, f := range c.footprint {
			if f.all && f.fam == t.fam {
				return
			}
		}
		c.oblige(st, "frame", "call:"+callee, pos, TFalse, "callee may modify every object of family "+t.fam+" which is not in the modifies footprint")
		return
	}
	if c.isFreshRef(t.ref) {
		return
	}
	var goal Term
	switch {
	case t.lo != nil:
		goal = c.covered(t.fam, t.ref, t.lo, t.hi)
	case t.idx != nil:
		hi := c.iadd(*t.idx, c.idx(1))
		goal = c.covered(t.fam, t.ref, t.idx, &hi)
	default:
		goal = c.covered(t.fam, t.ref, nil, nil)
	}
	c.oblige(st, "frame", "call:"+callee, pos, goal, "callee footprint stays inside the modifies footprint ("+t.fam+")")
}
