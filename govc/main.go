package main

import (
	"fmt"

	"golang.org/x/tools/go/packages"
)

func main() { fmt.Println(packages.NeedSyntax) }
