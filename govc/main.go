package main

import (
	"flag"
	"fmt"
	"os"
	"path/filepath"
	"sort"
	"strings"
	"sync"
	"time"
)

var (
	repoRoot  = "/repo"
	verifRoot = "/verif"
)

func main() {
	if len(os.Args) < 2 {
		usage()
	}
	defer cleanupScratch()
	switch os.Args[1] {
	case "check":
		os.Exit(cmdCheck(os.Args[2:]))
	case "func":
		os.Exit(cmdFunc(os.Args[2:]))
	case "replay":
		os.Exit(cmdReplay(os.Args[2:]))
	case "selftest":
		os.Exit(cmdSelftest(os.Args[2:]))
	default:
		usage()
	}
}

func usage() {
	fmt.Fprintln(os.Stderr, "usage: govc check <property> [quick|thorough] | func <pkg> <key> [-dump dir] | replay <file> | selftest [property]")
	os.Exit(2)
}

// solveAll discharges obligations in parallel.
// goalQuantified: the goal (after macro expansion) contains a quantifier, possibly through a named definition.
func (o *Obligation) goalQuantified() bool {
	return strings.Contains(o.Goal.S, "(forall") || strings.Contains(o.Goal.S, "(exists") || strings.Contains(o.Goal.S, "soft!") || strings.Contains(o.Goal.S, "q!")
}

func solveAll(obs []*Obligation, tier string, par int) {
	quickT, thoroughT := 10, 60
	if p := os.Getenv("GOVC_PAR"); p != "" {
		fmt.Sscanf(p, "%d", &par)
	}
	var wg sync.WaitGroup
	sem := make(chan struct{}, par)
	for _, o := range obs {
		wg.Add(1)
		sem <- struct{}{}
		go func(o *Obligation) {
			defer wg.Done()
			defer func() { <-sem }()
			t := quickT
			if tier == "thorough" {
				t = thoroughT
			}
			if o.Timeout > 0 {
				t = o.Timeout
				if tier == "thorough" {
					t *= 3
				}
			}
			if o.Cover {
				v := Solve(o.QueryOpt(false, true), 5, false, []string{"z3-new"})
				o.Verdict = v
				switch v.Result {
				case "sat":
					o.Status = "cover-ok"
				case "unsat":
					o.Status = "cover-failed"
				default:
					o.Status = "cover-unknown"
				}
				return
			}
			// staged solving: fewer hypotheses first (always sound), the full query last
			hasSoft := o.HasSoft()
			if hasSoft {
				for _, drop := range []int{2, 1} {
					lt := 3
					if drop == 2 && (o.Kind == "ensures" || o.Kind == "lemma" || o.Kind == "inv-preserved") && o.goalQuantified() {
						// a quantified goal normally needs the quantified hypotheses; a short attempt still pays off on
						// infeasible paths (split-paths runs through branches the invariants exclude)
						lt = 1
					}
					o.softDrop = drop
					lv := Solve(o.QueryOpt(false, true), lt, false, o.Backends)
					o.softDrop = 0
					if lv.Result == "unsat" {
						lv.Backend += fmt.Sprintf("(light%d)", drop)
						o.Verdict = lv
						o.Status = "discharged"
						return
					}
				}
			}
			if o.HasQFacts() && o.Kind != "ensures" && o.Kind != "lemma" {
				lt := 4
				if o.Kind == "inv-preserved" || o.Kind == "inv-entry" {
					lt = 2
				}
				lv := Solve(o.QueryOpt(false, true), lt, false, o.Backends)
				if lv.Result == "unsat" {
					lv.Backend += "(light)"
					o.Verdict = lv
					o.Status = "discharged"
					return
				}
			}
			v := Solve(o.Query(true), t, tier == "thorough" && os.Getenv("GOVC_CROSS") != "", o.Backends)
			o.Verdict = v
			switch v.Result {
			case "unsat":
				o.Status = "discharged"
			case "sat":
				o.Status = "refuted"
			default:
				o.Status = "undecided"
			}
		}(o)
	}
	wg.Wait()
}

func cmdFunc(args []string) int {
	fs := flag.NewFlagSet("func", flag.ExitOnError)
	dump := fs.String("dump", "", "directory to dump SMT queries into")
	tier := fs.String("tier", "quick", "tier")
	root := fs.String("root", repoRoot, "repository root")
	fs.Parse(args)
	rest := fs.Args()
	if len(rest) < 1 {
		usage()
	}
	rel := rest[0]
	prog, err := LoadProgram(*root, append([]string{rel}, extraPkgs(rel)...), nil)
	if err != nil {
		fmt.Fprintln(os.Stderr, "load:", err)
		return 2
	}
	pk := prog.byRel[rel]
	if pk == nil || pk.contracts == nil {
		fmt.Fprintln(os.Stderr, "no contracts for", rel)
		return 2
	}
	var reps []*FuncReport
	want := map[string]bool{}
	for _, k := range rest[1:] {
		want[k] = true
	}
	for _, key := range pk.contracts.FuncOrder {
		fc := pk.contracts.Funcs[key]
		if len(want) > 0 && !want[key] {
			continue
		}
		if fc.Assumed {
			continue
		}
		reps = append(reps, VerifyFunc(prog, pk, fc, *tier))
	}
	for _, lm := range pk.contracts.Lemmas {
		if len(want) > 0 && !want[lm.Name] {
			continue
		}
		reps = append(reps, VerifyLemma(prog, pk, lm, *tier))
	}
	var all []*Obligation
	for _, r := range reps {
		if only := os.Getenv("GOVC_ONLY"); only != "" {
			// development aid: solve (and print) only the obligations whose name contains one of the given substrings
			var keep []*Obligation
			for _, o := range r.Obligs {
				for _, pat := range strings.Split(only, ",") {
					if strings.Contains(o.Name, pat) {
						keep = append(keep, o)
						break
					}
				}
			}
			r.Obligs = keep
		}
		all = append(all, r.Obligs...)
	}
	if *dump != "" {
		os.MkdirAll(*dump, 0o755)
		for _, o := range all {
			base := filepath.Join(*dump, strings.NewReplacer("/", "_", ":", "_").Replace(o.Name))
			os.WriteFile(base+".smt2", []byte(o.Query(true)), 0o644)
			if o.HasSoft() {
				for _, d := range []int{1, 2} {
					o.softDrop = d
					os.WriteFile(fmt.Sprintf("%s.light%d.smt2", base, d), []byte(o.QueryOpt(false, true)), 0o644)
				}
				o.softDrop = 0
			}
		}
	}
	start := time.Now()
	solveAll(all, *tier, 8)
	bad := 0
	for _, r := range reps {
		fmt.Printf("== %s (%s, mode %s) %d obligations\n", r.Name, r.Kind, r.Mode, len(r.Obligs))
		if r.Err != "" {
			fmt.Printf("   ERROR: %s\n", r.Err)
			bad++
		}
		for _, o := range r.Obligs {
			mark := "ok "
			if o.Status != "discharged" && o.Status != "cover-ok" {
				mark = "BAD"
				bad++
			}
			fmt.Printf("   %s %-12s %-8s %5dms %s  [%s] %s\n", mark, o.Status, o.Verdict.Backend, o.Verdict.Ms, o.Name, o.Pos, o.Text)
			if o.Status == "refuted" {
				fmt.Printf("       model: %s\n", strings.ReplaceAll(modelSummary(o), "\n", " "))
			}
			if o.Status == "undecided" && os.Getenv("GOVC_VERBOSE") != "" {
				fmt.Printf("       out: %s\n", o.Verdict.Output)
			}
		}
		for _, t := range r.Trusted {
			fmt.Printf("   trusted: %s\n", t)
		}
	}
	fmt.Printf("%d obligations, %d not ok, %.1fs\n", len(all), bad, time.Since(start).Seconds())
	if bad > 0 {
		return 1
	}
	return 0
}

func modelSummary(o *Obligation) string {
	lines := strings.Split(o.Verdict.Output, "\n")
	var out []string
	for _, l := range lines[1:] {
		l = strings.TrimSpace(l)
		if l != "" {
			out = append(out, l)
		}
	}
	s := strings.Join(out, " ")
	if len(s) > 600 {
		s = s[:600] + "..."
	}
	return s
}

func sortedKeys(m map[string]bool) []string {
	var out []string
	for k := range m {
		out = append(out, k)
	}
	sort.Strings(out)
	return out
}

// extraPkgs lists packages whose contracts a package's functions rely on (callee contracts live with the callee).
func extraPkgs(rel string) []string {
	return pkgDeps[rel]
}

var pkgDeps = map[string][]string{
	"pkg/partition":             {"pkg/convert"},
	"banyand/internal/storage":  {"pkg/timestamp"},
	"pkg/encoding":              {"pkg/encoding/vararray"},
	"pkg/query/logical/measure": {"pkg/query/executor"},
	"pkg/query/logical/trace":   {"pkg/iter"},
	"pkg/filter":                {"pkg/encoding", "pkg/encoding/vararray"},
}

func cmdReplay(args []string) int   { fmt.Println("replay: not implemented yet"); return 2 }
