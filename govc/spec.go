package main

import (
	"fmt"
	"math/big"
	"os"
	"strconv"
	"strings"
	"unicode"
)

// ---------------------------------------------------------------------------------------------
// Spec expression AST

type SExpr interface{}

type (
	SIdent struct{ Name string }
	SLit   struct {
		Int  *big.Int
		Bool *bool
		Str  *string
	}
	SBin   struct {
		Op   string
		L, R SExpr
	}
	SUn struct {
		Op string
		X  SExpr
	}
	SCall struct {
		Fun  SExpr
		Args []SExpr
	}
	SIndex struct{ X, I SExpr }
	SSlice struct{ X, Lo, Hi SExpr }
	SSel   struct {
		X    SExpr
		Name string
	}
	SParam struct {
		Name string
		Type string // Go-like type text: int, uint64, []byte, float64, bool, *segment ...
	}
	SQuant struct {
		Forall bool
		Vars   []SParam
		Body   SExpr
	}
)

// ---------------------------------------------------------------------------------------------
// Tokenizer

type tok struct {
	kind string // "id", "int", "str", "op", "eof"
	s    string
}

func tokenize(src string) ([]tok, error) {
	var out []tok
	i := 0
	ops := []string{"<==>", "==>", "&&", "||", "==", "!=", "<=", ">=", "<<", ">>", "&^", "::", "..",
		"+", "-", "*", "/", "%", "&", "|", "^", "<", ">", "!", "(", ")", "[", "]", ",", ".", ":", "{", "}"}
	for i < len(src) {
		c := src[i]
		if c == ' ' || c == '\t' || c == '\n' || c == '\r' {
			i++
			continue
		}
		if c == '/' && i+1 < len(src) && src[i+1] == '/' {
			// comment to end of line
			for i < len(src) && src[i] != '\n' {
				i++
			}
			continue
		}
		if unicode.IsLetter(rune(c)) || c == '_' {
			j := i
			for j < len(src) && (unicode.IsLetter(rune(src[j])) || unicode.IsDigit(rune(src[j])) || src[j] == '_') {
				j++
			}
			out = append(out, tok{"id", src[i:j]})
			i = j
			continue
		}
		if unicode.IsDigit(rune(c)) {
			j := i
			for j < len(src) && (unicode.IsLetter(rune(src[j])) || unicode.IsDigit(rune(src[j])) || src[j] == '_') {
				j++
			}
			out = append(out, tok{"int", src[i:j]})
			i = j
			continue
		}
		if c == '"' {
			j := i + 1
			for j < len(src) && src[j] != '"' {
				if src[j] == '\\' {
					j++
				}
				j++
			}
			if j >= len(src) {
				return nil, fmt.Errorf("unterminated string")
			}
			s, err := strconv.Unquote(src[i : j+1])
			if err != nil {
				return nil, err
			}
			out = append(out, tok{"str", s})
			i = j + 1
			continue
		}
		if c == '\'' {
			j := i + 1
			for j < len(src) && src[j] != '\'' {
				if src[j] == '\\' {
					j++
				}
				j++
			}
			r, _, _, err := strconv.UnquoteChar(src[i+1:j], '\'')
			if err != nil {
				return nil, err
			}
			out = append(out, tok{"int", strconv.Itoa(int(r))})
			i = j + 1
			continue
		}
		matched := false
		for _, op := range ops {
			if strings.HasPrefix(src[i:], op) {
				out = append(out, tok{"op", op})
				i += len(op)
				matched = true
				break
			}
		}
		if !matched {
			return nil, fmt.Errorf("unexpected character %q in spec expression %q", c, src)
		}
	}
	out = append(out, tok{"eof", ""})
	return out, nil
}

// ---------------------------------------------------------------------------------------------
// Parser (Pratt)

type sparser struct {
	toks []tok
	pos  int
	src  string
}

func (p *sparser) peek() tok { return p.toks[p.pos] }
func (p *sparser) next() tok { t := p.toks[p.pos]; p.pos++; return t }
func (p *sparser) isOp(s string) bool {
	t := p.peek()
	return t.kind == "op" && t.s == s
}

func (p *sparser) expect(s string) error {
	t := p.next()
	if t.kind != "op" || t.s != s {
		return fmt.Errorf("expected %q, got %q in %q", s, t.s, p.src)
	}
	return nil
}

var binPrec = map[string]int{
	"<==>": 1, "==>": 2, "||": 3, "&&": 4,
	"==": 5, "!=": 5, "<": 5, "<=": 5, ">": 5, ">=": 5,
	"+": 6, "-": 6, "|": 6, "^": 6,
	"*": 7, "/": 7, "%": 7, "<<": 7, ">>": 7, "&": 7, "&^": 7,
}

func ParseSpecExpr(src string) (SExpr, error) {
	toks, err := tokenize(src)
	if err != nil {
		return nil, err
	}
	p := &sparser{toks: toks, src: src}
	e, err := p.parseExpr(0)
	if err != nil {
		return nil, err
	}
	if p.peek().kind != "eof" {
		return nil, fmt.Errorf("trailing tokens at %q in %q", p.peek().s, src)
	}
	return e, nil
}

func (p *sparser) parseExpr(minPrec int) (SExpr, error) {
	lhs, err := p.parseUnary()
	if err != nil {
		return nil, err
	}
	for {
		t := p.peek()
		if t.kind != "op" {
			break
		}
		prec, ok := binPrec[t.s]
		if !ok || prec < minPrec {
			break
		}
		p.next()
		nextMin := prec + 1
		if t.s == "==>" {
			nextMin = prec // right assoc
		}
		rhs, err := p.parseExpr(nextMin)
		if err != nil {
			return nil, err
		}
		lhs = &SBin{t.s, lhs, rhs}
	}
	return lhs, nil
}

func (p *sparser) parseUnary() (SExpr, error) {
	t := p.peek()
	if t.kind == "op" && (t.s == "!" || t.s == "-" || t.s == "^" || t.s == "+") {
		p.next()
		x, err := p.parseUnary()
		if err != nil {
			return nil, err
		}
		return &SUn{t.s, x}, nil
	}
	return p.parsePostfix()
}

func (p *sparser) parseTypeText() (string, error) {
	// type text: sequence of tokens until ',' '::' or ')' at depth 0
	var b strings.Builder
	for {
		t := p.peek()
		if t.kind == "eof" || (t.kind == "op" && (t.s == "," || t.s == "::" || t.s == ")" || t.s == "==" )) {
			break
		}
		b.WriteString(t.s)
		p.next()
	}
	if b.Len() == 0 {
		return "", fmt.Errorf("missing type in %q", p.src)
	}
	return b.String(), nil
}

func (p *sparser) parsePrimary() (SExpr, error) {
	t := p.next()
	switch t.kind {
	case "int":
		s := strings.ReplaceAll(t.s, "_", "")
		v, ok := new(big.Int).SetString(s, 0)
		if !ok {
			return nil, fmt.Errorf("bad integer literal %q", t.s)
		}
		return &SLit{Int: v}, nil
	case "str":
		s := t.s
		return &SLit{Str: &s}, nil
	case "id":
		switch t.s {
		case "true", "false":
			b := t.s == "true"
			return &SLit{Bool: &b}, nil
		case "forall", "exists":
			var vars []SParam
			for {
				n := p.next()
				if n.kind != "id" {
					return nil, fmt.Errorf("quantifier variable expected in %q", p.src)
				}
				ty := "int"
				if !(p.isOp(",") || p.isOp("::")) {
					var err error
					ty, err = p.parseTypeText()
					if err != nil {
						return nil, err
					}
				}
				vars = append(vars, SParam{n.s, ty})
				if p.isOp(",") {
					p.next()
					continue
				}
				break
			}
			if err := p.expect("::"); err != nil {
				return nil, err
			}
			body, err := p.parseExpr(0)
			if err != nil {
				return nil, err
			}
			return &SQuant{t.s == "forall", vars, body}, nil
		}
		return &SIdent{t.s}, nil
	case "op":
		if t.s == "(" {
			e, err := p.parseExpr(0)
			if err != nil {
				return nil, err
			}
			if err := p.expect(")"); err != nil {
				return nil, err
			}
			return e, nil
		}
		if t.s == "[" {
			// type conversion like []byte(x) : parse "[]T"
			if err := p.expect("]"); err != nil {
				return nil, err
			}
			n := p.next()
			return &SIdent{"[]" + n.s}, nil
		}
	}
	return nil, fmt.Errorf("unexpected token %q in %q", t.s, p.src)
}

func (p *sparser) parsePostfix() (SExpr, error) {
	x, err := p.parsePrimary()
	if err != nil {
		return nil, err
	}
	for {
		t := p.peek()
		if t.kind != "op" {
			return x, nil
		}
		switch t.s {
		case "(":
			p.next()
			var args []SExpr
			for !p.isOp(")") {
				a, err := p.parseExpr(0)
				if err != nil {
					return nil, err
				}
				args = append(args, a)
				if p.isOp(",") {
					p.next()
				}
			}
			p.next()
			x = &SCall{x, args}
		case "[":
			p.next()
			var lo, hi SExpr
			if !p.isOp(":") {
				lo, err = p.parseExpr(0)
				if err != nil {
					return nil, err
				}
			}
			if p.isOp(":") {
				p.next()
				if !p.isOp("]") {
					hi, err = p.parseExpr(0)
					if err != nil {
						return nil, err
					}
				}
				if err := p.expect("]"); err != nil {
					return nil, err
				}
				x = &SSlice{x, lo, hi}
			} else {
				if err := p.expect("]"); err != nil {
					return nil, err
				}
				x = &SIndex{x, lo}
			}
		case ".":
			p.next()
			n := p.next()
			if n.kind != "id" {
				return nil, fmt.Errorf("selector expected in %q", p.src)
			}
			x = &SSel{x, n.s}
		default:
			return x, nil
		}
	}
}

// ---------------------------------------------------------------------------------------------
// Contract files

type Clause struct {
	Label    string
	Text     string
	Expr     SExpr
	Thorough bool // only checked in the thorough tier
	Line     int
}

type LoopSpec struct {
	Invariants []*Clause
	Decreases  *Clause
	Unroll     int // >0: unroll with unwinding assertion instead of cutting
	SplitTail  bool // split only at if statements in tail position or whose branch ends in a jump
	SplitPaths bool // verify the loop body once per path through its if statements (no merging at their joins)
}

type FuncContract struct {
	Key        string // "Func" or "Recv.Func"
	Pkg        string
	File       string
	Props      []string
	Mode       string // "bv" | "int"
	Requires   []*Clause
	Ensures    []*Clause
	Modifies   []*Clause
	Loops      map[int]*LoopSpec
	Inline     []string
	AllowPanic []*Clause
	Assumed    bool   // contract is trusted, body not verified
	AssumedWhy string
	Opts       map[string]string
	Line       int
	Pure       bool
	// TrustedEnsures are postconditions assumed at call sites but not proved from the body (each use is listed
	// in the evidence as an assumption).
	TrustedEnsures []*Clause
	// AtCall: assertions checked in the caller's state at every call of the named callee
	AtCall map[string][]*Clause
	// AtStmt: assertions checked immediately before every simple statement whose (gofmt-normalised) text is the key
	AtStmt map[string][]*Clause
}

type SpecFunc struct {
	Name   string
	Params []SParam
	Result string
	Body   SExpr
	Text   string
	Rec    bool
	Mode   string // "" = both
	Pkg    string
	Decl   bool // uninterpreted (no body)
}

type Lemma struct {
	Name     string
	Pkg      string
	Params   []SParam
	Props    []string
	Mode     string
	Requires []*Clause
	Ensures  []*Clause
	Thorough bool
	Line     int
	Uses     []string // other proved lemmas to instantiate as axioms (closed, quantified)
	Induct   string   // "induction k": natural-number induction on integer parameter k (hypothesis: the lemma at k-1 when k >= 1)
	Backends []string
	Timeout  int
}

type GhostField struct {
	Name string
	Type string
}

type TypeDecl struct {
	Impl   string // for interface types: the concrete struct type its values point to
	Name   string
	Ghost  []GhostField
	Invs   []*Clause
	Opaque bool
}

type ContractFile struct {
	Path      string
	Pkg       string // package path relative to repo root
	SpecFuncs []*SpecFunc
	Funcs     map[string]*FuncContract
	FuncOrder []string
	Lemmas    []*Lemma
	Types     map[string]*TypeDecl
	Axioms    []*Clause
	GhostVars []GhostField
}

func parseParams(s string) ([]SParam, error) {
	s = strings.TrimSpace(s)
	if s == "" {
		return nil, nil
	}
	var out []SParam
	for _, part := range splitTop(s, ',') {
		f := strings.Fields(strings.TrimSpace(part))
		if len(f) < 1 {
			return nil, fmt.Errorf("bad parameter %q", part)
		}
		ty := "int"
		if len(f) >= 2 {
			ty = strings.Join(f[1:], "")
		}
		out = append(out, SParam{f[0], ty})
	}
	// Go-style "a, b uint64": propagate type backwards
	for i := len(out) - 2; i >= 0; i-- {
		parts := splitTop(s, ',')
		if len(strings.Fields(strings.TrimSpace(parts[i]))) == 1 {
			out[i].Type = out[i+1].Type
		}
	}
	return out, nil
}

func splitTop(s string, sep byte) []string {
	var out []string
	depth := 0
	last := 0
	for i := 0; i < len(s); i++ {
		switch s[i] {
		case '(', '[':
			depth++
		case ')', ']':
			depth--
		default:
			if s[i] == sep && depth == 0 {
				out = append(out, s[last:i])
				last = i + 1
			}
		}
	}
	out = append(out, s[last:])
	return out
}

func parseClause(text string, line int) (*Clause, error) {
	c := &Clause{Line: line}
	t := strings.TrimSpace(text)
	if strings.HasPrefix(t, "[thorough]") {
		c.Thorough = true
		t = strings.TrimSpace(t[len("[thorough]"):])
	}
	// label: ident ':' not followed by ':'
	for i := 0; i < len(t); i++ {
		ch := t[i]
		if unicode.IsLetter(rune(ch)) || unicode.IsDigit(rune(ch)) || ch == '_' || ch == '-' {
			continue
		}
		if ch == ':' && i > 0 && (i+1 >= len(t) || t[i+1] != ':') {
			c.Label = t[:i]
			t = strings.TrimSpace(t[i+1:])
		}
		break
	}
	c.Text = t
	e, err := ParseSpecExpr(t)
	if err != nil {
		return nil, fmt.Errorf("line %d: %v", line, err)
	}
	c.Expr = e
	return c, nil
}

// ParseContractFile reads a comment-only contract file.
func ParseContractFile(path, pkg string) (*ContractFile, error) {
	data, err := os.ReadFile(path)
	if err != nil {
		return nil, err
	}
	return ParseContractText(string(data), path, pkg)
}

type rawClause struct {
	kw   string
	text string
	line int
}

func ParseContractText(data, path, pkg string) (*ContractFile, error) {
	cf := &ContractFile{Path: path, Pkg: pkg, Funcs: map[string]*FuncContract{}, Types: map[string]*TypeDecl{}}
	keywords := map[string]bool{"section": true, "spec": true, "func": true, "lemma": true, "type": true, "property": true, "mode": true,
		"requires": true, "ensures": true, "modifies": true, "loop": true, "inline": true, "allow": true, "assumed": true,
		"ghost": true, "invariant": true, "opt": true, "uses": true, "induction": true, "axiom": true, "thorough": true, "pure": true, "trusted": true,
		"backends": true, "timeout": true, "decl": true, "opaque": true, "inline-loop": true, "at-call": true, "at-stmt": true, "impl": true}
	var raws []rawClause
	for i, ln := range strings.Split(data, "\n") {
		t := strings.TrimSpace(ln)
		if !strings.HasPrefix(t, "//@") {
			continue
		}
		body := strings.TrimSpace(t[3:])
		if body == "" {
			continue
		}
		// strip trailing comments " // ..."
		if k := strings.Index(body, " // "); k >= 0 {
			body = strings.TrimSpace(body[:k])
		}
		first := body
		if k := strings.IndexAny(body, " \t("); k >= 0 {
			first = body[:k]
		}
		if keywords[first] {
			raws = append(raws, rawClause{first, strings.TrimSpace(body[len(first):]), i + 1})
		} else {
			if len(raws) == 0 {
				return nil, fmt.Errorf("%s:%d: continuation line without clause", path, i+1)
			}
			raws[len(raws)-1].text += " " + body
		}
	}
	var curF *FuncContract
	var curL *Lemma
	var curT *TypeDecl
	var fileProps []string
	errf := func(rc rawClause, f string, a ...interface{}) error {
		return fmt.Errorf("%s:%d: %s", path, rc.line, fmt.Sprintf(f, a...))
	}
	for _, rc := range raws {
		switch rc.kw {
		case "spec", "decl":
			// spec func name(params) type = expr      |   decl func name(params) type
			t := rc.text
			if !strings.HasPrefix(t, "func") {
				return nil, errf(rc, "expected 'spec func'")
			}
			t = strings.TrimSpace(t[4:])
			rec := false
			if strings.HasPrefix(t, "rec ") {
				rec = true
				t = strings.TrimSpace(t[4:])
			}
			op := strings.IndexByte(t, '(')
			if op < 0 {
				return nil, errf(rc, "bad spec func")
			}
			name := strings.TrimSpace(t[:op])
			// find matching paren
			depth, cl := 0, -1
			for i := op; i < len(t); i++ {
				if t[i] == '(' {
					depth++
				} else if t[i] == ')' {
					depth--
					if depth == 0 {
						cl = i
						break
					}
				}
			}
			if cl < 0 {
				return nil, errf(rc, "bad spec func params")
			}
			params, err := parseParams(t[op+1 : cl])
			if err != nil {
				return nil, errf(rc, "%v", err)
			}
			rest := strings.TrimSpace(t[cl+1:])
			sf := &SpecFunc{Name: name, Params: params, Rec: rec, Pkg: pkg}
			if rc.kw == "decl" {
				sf.Decl = true
				sf.Result = strings.ReplaceAll(rest, " ", "")
			} else {
				eq := strings.Index(rest, "=")
				if eq < 0 {
					return nil, errf(rc, "spec func needs '= body'")
				}
				sf.Result = strings.ReplaceAll(strings.TrimSpace(rest[:eq]), " ", "")
				sf.Text = strings.TrimSpace(rest[eq+1:])
				e, err := ParseSpecExpr(sf.Text)
				if err != nil {
					return nil, errf(rc, "%v", err)
				}
				sf.Body = e
			}
			cf.SpecFuncs = append(cf.SpecFuncs, sf)
			curF, curL, curT = nil, nil, nil
		case "func":
			key := strings.TrimSpace(rc.text)
			// accept "(s *segment) DecRef" or "segment.DecRef" or "DecRef"
			if strings.HasPrefix(key, "(") {
				cl := strings.IndexByte(key, ')')
				recv := strings.Fields(strings.Trim(key[1:cl], " "))
				rt := strings.TrimLeft(recv[len(recv)-1], "*")
				key = rt + "." + strings.TrimSpace(key[cl+1:])
			}
			curF = &FuncContract{Key: key, Pkg: pkg, File: path, Loops: map[int]*LoopSpec{}, Opts: map[string]string{}, Line: rc.line,
				Props: append([]string{}, fileProps...)}
			if _, dup := cf.Funcs[key]; dup {
				return nil, errf(rc, "duplicate contract for %s", key)
			}
			cf.Funcs[key] = curF
			cf.FuncOrder = append(cf.FuncOrder, key)
			curL, curT = nil, nil
		case "lemma":
			t := rc.text
			op := strings.IndexByte(t, '(')
			cl := strings.LastIndexByte(t, ')')
			if op < 0 || cl < op {
				return nil, errf(rc, "bad lemma header")
			}
			params, err := parseParams(t[op+1 : cl])
			if err != nil {
				return nil, errf(rc, "%v", err)
			}
			curL = &Lemma{Name: strings.TrimSpace(t[:op]), Pkg: pkg, Params: params, Line: rc.line, Props: append([]string{}, fileProps...)}
			cf.Lemmas = append(cf.Lemmas, curL)
			curF, curT = nil, nil
		case "type":
			curT = &TypeDecl{Name: strings.TrimSpace(rc.text)}
			cf.Types[curT.Name] = curT
			curF, curL = nil, nil
		case "section":
			// "section C07 C14": the properties of every following func / lemma (until the next section)
			fileProps = strings.Fields(strings.ReplaceAll(rc.text, ",", " "))
			curF, curL, curT = nil, nil, nil
		case "property":
			ps := strings.Fields(strings.ReplaceAll(rc.text, ",", " "))
			switch {
			case curF != nil:
				curF.Props = ps
			case curL != nil:
				curL.Props = ps
			default:
				fileProps = ps
			}
		case "mode":
			switch {
			case curF != nil:
				curF.Mode = rc.text
			case curL != nil:
				curL.Mode = rc.text
			default:
				if n := len(cf.SpecFuncs); n > 0 {
					cf.SpecFuncs[n-1].Mode = rc.text
				}
			}
		case "requires", "ensures", "modifies", "invariant", "axiom":
			c, err := parseClause(rc.text, rc.line)
			if err != nil {
				return nil, fmt.Errorf("%s: %v", path, err)
			}
			switch {
			case rc.kw == "axiom":
				cf.Axioms = append(cf.Axioms, c)
			case curF != nil && rc.kw == "requires":
				curF.Requires = append(curF.Requires, c)
			case curF != nil && rc.kw == "ensures":
				curF.Ensures = append(curF.Ensures, c)
			case curF != nil && rc.kw == "modifies":
				curF.Modifies = append(curF.Modifies, c)
			case curL != nil && rc.kw == "requires":
				curL.Requires = append(curL.Requires, c)
			case curL != nil && rc.kw == "ensures":
				curL.Ensures = append(curL.Ensures, c)
			case curT != nil && rc.kw == "invariant":
				curT.Invs = append(curT.Invs, c)
			default:
				return nil, errf(rc, "%s outside func/lemma/type", rc.kw)
			}
		case "loop":
			if curF == nil {
				return nil, errf(rc, "loop outside func")
			}
			f := strings.Fields(rc.text)
			if len(f) < 2 {
				return nil, errf(rc, "bad loop clause")
			}
			n, err := strconv.Atoi(f[0])
			if err != nil {
				return nil, errf(rc, "bad loop ordinal")
			}
			ls := curF.Loops[n]
			if ls == nil {
				ls = &LoopSpec{}
				curF.Loops[n] = ls
			}
			rest := strings.TrimSpace(strings.TrimPrefix(strings.TrimSpace(rc.text[len(f[0]):]), f[1]))
			switch f[1] {
			case "invariant":
				c, err := parseClause(rest, rc.line)
				if err != nil {
					return nil, fmt.Errorf("%s: %v", path, err)
				}
				ls.Invariants = append(ls.Invariants, c)
			case "decreases":
				c, err := parseClause(rest, rc.line)
				if err != nil {
					return nil, fmt.Errorf("%s: %v", path, err)
				}
				ls.Decreases = c
			case "unroll":
				k, err := strconv.Atoi(rest)
				if err != nil {
					return nil, errf(rc, "bad unroll count")
				}
				ls.Unroll = k
			case "split-paths":
				ls.SplitPaths = true
			case "split-tail":
				ls.SplitPaths = true
				ls.SplitTail = true
			default:
				return nil, errf(rc, "unknown loop clause %q", f[1])
			}
		case "inline":
			if curF == nil {
				return nil, errf(rc, "inline outside func")
			}
			curF.Inline = append(curF.Inline, strings.Fields(strings.ReplaceAll(rc.text, ",", " "))...)
		case "allow":
			if curF == nil {
				return nil, errf(rc, "allow outside func")
			}
			t := strings.TrimSpace(strings.TrimPrefix(strings.TrimSpace(strings.TrimPrefix(rc.text, "panic")), "when"))
			c, err := parseClause(t, rc.line)
			if err != nil {
				return nil, fmt.Errorf("%s: %v", path, err)
			}
			curF.AllowPanic = append(curF.AllowPanic, c)
		case "inline-loop":
			if curF == nil {
				return nil, errf(rc, "inline-loop outside func")
			}
			f := strings.Fields(rc.text)
			if len(f) != 4 {
				return nil, errf(rc, "inline-loop <callee> <ordinal> unroll <k>")
			}
			curF.Opts["inline-loop:"+f[0]+"."+f[1]] = f[2] + " " + f[3]
		case "at-call":
			if curF == nil {
				return nil, errf(rc, "at-call outside func")
			}
			f := strings.Fields(rc.text)
			if len(f) < 3 || f[1] != "requires" {
				return nil, errf(rc, "at-call <callee> requires <expr>")
			}
			rest := strings.TrimSpace(rc.text[strings.Index(rc.text, "requires")+len("requires"):])
			c, err := parseClause(rest, rc.line)
			if err != nil {
				return nil, fmt.Errorf("%s: %v", path, err)
			}
			if curF.AtCall == nil {
				curF.AtCall = map[string][]*Clause{}
			}
			curF.AtCall[f[0]] = append(curF.AtCall[f[0]], c)
		case "at-stmt":
			// at-stmt "<statement text>" requires [label:] <expr>
			if curF == nil {
				return nil, errf(rc, "at-stmt outside func")
			}
			t := strings.TrimSpace(rc.text)
			if !strings.HasPrefix(t, "\"") {
				return nil, errf(rc, "at-stmt \"<statement>\" requires <expr>")
			}
			end := strings.Index(t[1:], "\" requires ")
			if end < 0 {
				return nil, errf(rc, "at-stmt \"<statement>\" requires <expr>")
			}
			stmtText := strings.Join(strings.Fields(t[1:1+end]), " ")
			c, err := parseClause(strings.TrimSpace(t[1+end+len("\" requires "):]), rc.line)
			if err != nil {
				return nil, fmt.Errorf("%s: %v", path, err)
			}
			if curF.AtStmt == nil {
				curF.AtStmt = map[string][]*Clause{}
			}
			curF.AtStmt[stmtText] = append(curF.AtStmt[stmtText], c)
		case "impl":
			if curT != nil {
				curT.Impl = strings.TrimSpace(rc.text)
			}
		case "assumed":
			if curF == nil {
				return nil, errf(rc, "assumed outside func")
			}
			curF.Assumed = true
			curF.AssumedWhy = rc.text
		case "trusted":
			if curF == nil {
				return nil, errf(rc, "trusted outside func")
			}
			c, err := parseClause(rc.text, rc.line)
			if err != nil {
				return nil, fmt.Errorf("%s: %v", path, err)
			}
			curF.TrustedEnsures = append(curF.TrustedEnsures, c)
		case "pure":
			if curF == nil {
				return nil, errf(rc, "pure outside func")
			}
			curF.Pure = true
		case "ghost":
			if curT == nil || strings.HasPrefix(rc.text, "var ") {
				// file-level ghost variable:  ghost var <name> <type>
				f := strings.Fields(rc.text)
				if len(f) == 3 && f[0] == "var" {
					cf.GhostVars = append(cf.GhostVars, GhostField{f[1], f[2]})
					continue
				}
				return nil, errf(rc, "ghost outside type (file level: ghost var <name> <type>)")
			}
			f := strings.Fields(rc.text)
			if len(f) != 2 {
				return nil, errf(rc, "ghost <name> <type>")
			}
			curT.Ghost = append(curT.Ghost, GhostField{f[0], f[1]})
		case "opaque":
			if curT != nil {
				curT.Opaque = true
			}
		case "opt":
			f := strings.Fields(rc.text)
			if curF != nil && len(f) >= 1 {
				v := "true"
				if len(f) > 1 {
					v = strings.Join(f[1:], " ")
				}
				curF.Opts[f[0]] = v
			}
		case "uses":
			if curL != nil {
				curL.Uses = append(curL.Uses, strings.Fields(strings.ReplaceAll(rc.text, ",", " "))...)
			} else if curF != nil {
				curF.Opts["uses"] = strings.TrimSpace(curF.Opts["uses"] + " " + strings.ReplaceAll(rc.text, ",", " "))
			}
		case "induction":
			if curL == nil {
				return nil, errf(rc, "induction outside a lemma")
			}
			curL.Induct = strings.TrimSpace(rc.text)
		case "thorough":
			if curL != nil {
				curL.Thorough = true
			}
		case "backends":
			if curL != nil {
				curL.Backends = strings.Fields(strings.ReplaceAll(rc.text, ",", " "))
			} else if curF != nil {
				curF.Opts["backends"] = rc.text
			}
		case "timeout":
			n, _ := strconv.Atoi(strings.TrimSpace(rc.text))
			if curL != nil {
				curL.Timeout = n
			} else if curF != nil {
				curF.Opts["timeout"] = rc.text
			}
		}
	}
	return cf, nil
}
