package main

// append model (quantifier-free for explicit elements):
//
//	fits    := len+n <= cap
//	ref'    := fits ? ref : fresh
//	row'    := row(ref) with the new elements stored at off+len+k          (same offset in both cases)
//	H'      := store(H, ref', row')
//	result  := (ref', off, len+n, fits ? cap : cap')   with cap' >= len+n
//
// In the reallocating case the fresh object starts as a copy of the whole old row, so elements [0,len) are the old
// ones; the contents of the spare capacity [len+n, cap') are whatever the old row held at those positions instead of
// zero (documented deviation: no verified function reads spare capacity after a reallocating append).

func (c *Ctx) appendCommon(st *State, s Slice, n Term, write func(fam, leaf string, row Term) Term) Val {
	newLen := c.name(c.iadd(s.Len, n), "len")
	fits := c.name(c.ile(newLen, s.Cap), "fits")
	wbase := c.iadd(s.Off, s.Len)
	c.checkWriteRange(st, c.elemPrefix(s.Elem), s.Elem, s.Ref, wbase, c.iadd(wbase, n), c.curPos, fits)
	r := c.allocRef(st)
	ref := c.name(Ite(fits, s.Ref, r), "aref")
	var fams [][2]string
	c.leafFamilies(c.elemPrefix(s.Elem), s.Elem, &fams)
	for _, f := range fams {
		h := c.heapGet(st, f[0], f[1])
		old := c.name(Select(h, s.Ref), "orow")
		nw := write(f[0], f[1], old)
		st.heaps[f[0]] = c.name(Store(h, ref, nw), "H_"+f[0])
	}
	newCap := c.declare("ncap", c.idxSort())
	st.assume(c, c.ile(newLen, newCap))
	st.assume(c, c.ile(c.iadd(s.Off, newCap), IntLit(c.idxSort(), pow2(60))))
	st.assume(c, c.ile(newCap, IntLit(c.idxSort(), pow2(60))))
	st.assume(c, c.ile(c.idx(0), newLen)) // lengths never overflow int
	return Slice{ref, s.Off, newLen, c.nameIfBig(Ite(fits, s.Cap, newCap), "acap"), s.Elem}
}

// appendElems2 appends explicitly listed elements.
func (c *Ctx) appendElems2(st *State, s Slice, elems []Val) Val {
	// store each element through a scratch state so that struct elements are split into their leaf families
	tmp := st.clone()
	scratchRef := s.Ref
	base := c.iadd(s.Off, s.Len)
	for i, v := range elems {
		c.store(tmp, c.elemPrefix(s.Elem), s.Elem, scratchRef, c.iadd(base, c.idx(int64(i))), v)
	}
	return c.appendCommon(st, s, c.idx(int64(len(elems))), func(fam, leaf string, row Term) Term {
		// the row of the scratch state at s.Ref is exactly "old row with the elements stored"
		h := c.heapGet(tmp, fam, leaf)
		return c.name(Select(h, scratchRef), "nrow")
	})
}

// appendGeneric2 appends n elements given by elemAt(family, leaf, k) for 0 <= k < n (one quantified fact per family).
func (c *Ctx) appendGeneric2(st *State, s Slice, n Term, elemAt func(fam, leaf string, k Term) Term) Val {
	base := c.name(c.iadd(s.Off, s.Len), "base")
	return c.appendCommon(st, s, n, func(fam, leaf string, row Term) Term {
		nw := c.declare("arow", arraySort(c.idxSort(), leaf))
		c.rangeAxiomRow(nw, fam)
		c.qfact(st, c.forallIdx(func(i Term) Term {
			in := And(c.ile(base, i), c.ilt(i, c.iadd(base, n)))
			return Eq(Select(nw, i), Ite(in, elemAt(fam, leaf, c.isub(i, base)), Select(row, i)))
		}))
		return nw
	})
}
