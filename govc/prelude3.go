package main

import (
	"go/ast"
	"go/token"
	"go/types"
	"strings"
)

// time.Time is modelled as one integer: nanoseconds since the Unix epoch (locations and the monotonic clock are ignored).
// The zero Time is a distinguished constant far before the epoch.

func isTimeType(t types.Type) bool {
	n, ok := t.(*types.Named)
	return ok && n.Obj() != nil && n.Obj().Pkg() != nil && n.Obj().Pkg().Path() == "time" && n.Obj().Name() == "Time"
}

// shapeOf is the structural view the value model switches on: instantiated type parameters are resolved and
// time.Time is a scalar.
func shapeOf(t types.Type) types.Type {
	if isTimeType(t) {
		return types.Typ[types.Int64]
	}
	return under(t)
}

func (c *Ctx) timeZero() Term {
	if !c.uf["time.zero"] {
		c.declareUF("time.zero", nil, c.idxSort())
		if c.mode == ModeInt {
			c.raw("(assert (< time.zero (- 1000000000000000000)))")
		}
		c.trusted["time.Time = integer nanoseconds since the epoch; the zero Time is an unspecified instant before 1938; locations / monotonic readings ignored"] = true
	}
	return Term{"time.zero", c.idxSort()}
}

func init() {
	tm := func(name string, f preludeFn) { prelude["time.Time."+name] = f }
	cmp := func(op token.Token) preludeFn {
		return func(c *Ctx, st *State, x *ast.CallExpr, r Val) Val {
			a := c.asScalar(r, tInt).T
			b := c.asScalar(c.eval(st, x.Args[0]), tInt).T
			if op == token.EQL {
				return Scalar{Eq(a, b), tBool}
			}
			return Scalar{c.intCompare(op, a, b, tInt), tBool}
		}
	}
	tm("Before", cmp(token.LSS))
	tm("After", cmp(token.GTR))
	tm("Equal", cmp(token.EQL))
	tm("Compare", func(c *Ctx, st *State, x *ast.CallExpr, r Val) Val {
		a := c.asScalar(r, tInt).T
		b := c.asScalar(c.eval(st, x.Args[0]), tInt).T
		one, mone := c.idx(1), c.isub(c.idx(0), c.idx(1))
		return Scalar{Ite(c.ilt(a, b), mone, Ite(Eq(a, b), c.idx(0), one)), tInt}
	})
	tm("UnixNano", func(c *Ctx, st *State, x *ast.CallExpr, r Val) Val {
		return Scalar{c.asScalar(r, tInt).T, types.Typ[types.Int64]}
	})
	tm("IsZero", func(c *Ctx, st *State, x *ast.CallExpr, r Val) Val {
		return Scalar{Eq(c.asScalar(r, tInt).T, c.timeZero()), tBool}
	})
	same := func(c *Ctx, st *State, x *ast.CallExpr, r Val) Val { return r }
	tm("Local", same)
	tm("UTC", same)
	tm("In", func(c *Ctx, st *State, x *ast.CallExpr, r Val) Val { c.evalMaybe(st, x.Args[0]); return r })
	tm("Add", func(c *Ctx, st *State, x *ast.CallExpr, r Val) Val {
		d := c.asScalar(c.eval(st, x.Args[0]), types.Typ[types.Int64]).T
		a := c.asScalar(r, tInt)
		return Scalar{c.name(c.iadd(a.T, d), "t"), a.Ty}
	})
	tm("Sub", func(c *Ctx, st *State, x *ast.CallExpr, r Val) Val {
		a := c.asScalar(r, tInt).T
		b := c.asScalar(c.eval(st, x.Args[0]), tInt).T
		return Scalar{c.name(c.isub(a, b), "d"), c.typeOf(x)}
	})
	tm("String", preOpaqueString)
	tm("Format", preOpaqueString)
	prelude["time.Now"] = func(c *Ctx, st *State, x *ast.CallExpr, r Val) Val {
		c.trust("time.Now returns an arbitrary instant after the epoch")
		n := c.declare("now", c.idxSort())
		st.assume(c, c.ilt(c.idx(0), n))
		return Scalar{n, c.typeOf(x)}
	}
	prelude["time.Unix"] = func(c *Ctx, st *State, x *ast.CallExpr, r Val) Val {
		s := c.asScalar(c.eval(st, x.Args[0]), types.Typ[types.Int64]).T
		ns := c.asScalar(c.eval(st, x.Args[1]), types.Typ[types.Int64]).T
		if c.mode != ModeInt {
			unsupp("time.Unix in bv mode")
		}
		return Scalar{c.name(app(SInt, "+", app(SInt, "*", s, Term{"1000000000", SInt}), ns), "t"), c.typeOf(x)}
	}
	prelude["time.Duration.Nanoseconds"] = func(c *Ctx, st *State, x *ast.CallExpr, r Val) Val {
		return Scalar{c.asScalar(r, tInt).T, types.Typ[types.Int64]}
	}

	// sync/atomic functions operate on &place arguments; each call is one atomic step (sequential semantics here)
	atomicLoad := func(c *Ctx, st *State, x *ast.CallExpr, r Val) Val {
		p := c.atomicPlace(st, x.Args[0])
		return c.readPlace(st, p)
	}
	atomicStore := func(c *Ctx, st *State, x *ast.CallExpr, r Val) Val {
		p := c.atomicPlace(st, x.Args[0])
		c.writePlace(st, p, c.eval(st, x.Args[1]))
		return Tuple{}
	}
	atomicAdd := func(c *Ctx, st *State, x *ast.CallExpr, r Val) Val {
		p := c.atomicPlace(st, x.Args[0])
		cur := c.asScalar(c.readPlace(st, p), p.ty)
		d := c.asScalar(c.eval(st, x.Args[1]), p.ty)
		nv := Scalar{c.name(c.intBinop(st, token.ADD, cur.T, d.T, p.ty, p.ty, x.Pos()), "atomic"), p.ty}
		c.writePlace(st, p, nv)
		return nv
	}
	atomicCAS := func(c *Ctx, st *State, x *ast.CallExpr, r Val) Val {
		p := c.atomicPlace(st, x.Args[0])
		cur := c.asScalar(c.readPlace(st, p), p.ty)
		old := c.asScalar(c.eval(st, x.Args[1]), p.ty)
		nw := c.asScalar(c.eval(st, x.Args[2]), p.ty)
		ok := c.name(Eq(cur.T, old.T), "cas")
		c.writePlace(st, p, Scalar{Ite(ok, nw.T, cur.T), p.ty})
		return Scalar{ok, tBool}
	}
	for _, w := range []string{"Int32", "Int64", "Uint32", "Uint64"} {
		prelude["sync/atomic.Load"+w] = atomicLoad
		prelude["sync/atomic.Store"+w] = atomicStore
		prelude["sync/atomic.Add"+w] = atomicAdd
		prelude["sync/atomic.CompareAndSwap"+w] = atomicCAS
	}
	// context plumbing carries no modelled state
	for _, n := range []string{"context.Background", "context.TODO", "context.WithValue"} {
		prelude[n] = func(c *Ctx, st *State, x *ast.CallExpr, r Val) Val {
			for _, a := range x.Args {
				c.evalMaybe(st, a)
			}
			v := c.declare("ctx", SInt)
			st.assume(c, app(SBool, "<", Term{"0", SInt}, v))
			return Scalar{v, c.typeOf(x)}
		}
	}
}

// atomicPlace resolves the &x argument of a sync/atomic function to the place x.
func (c *Ctx) atomicPlace(st *State, e ast.Expr) Place {
	c.trust("sync/atomic operations are single sequentially consistent steps (functions are verified sequentially: no interference between steps)")
	u, ok := ast.Unparen(e).(*ast.UnaryExpr)
	if !ok || u.Op != token.AND {
		unsupp("sync/atomic argument must be &place at %s", c.posStr(e.Pos()))
	}
	return c.place(st, u.X)
}

// isLoggingCall: zerolog event chains and the repository's logger wrappers have no effect on modelled state. A chain
// that contains .Panic() / .Fatal() terminates the path.
func (c *Ctx) isLoggingCallee(fn *types.Func) bool {
	if fn.Pkg() == nil {
		return false
	}
	p := fn.Pkg().Path()
	return p == "github.com/rs/zerolog" || p == c.prog.module+"/pkg/logger"
}

func chainHasPanic(e ast.Expr) bool {
	found := false
	ast.Inspect(e, func(n ast.Node) bool {
		if ce, ok := n.(*ast.CallExpr); ok {
			if se, ok := ce.Fun.(*ast.SelectorExpr); ok {
				switch se.Sel.Name {
				case "Panic", "Panicf", "Fatal", "Fatalf":
					found = true
				}
			}
		}
		return true
	})
	return found
}

func (c *Ctx) loggingChain(st *State, x *ast.CallExpr, fn *types.Func) Val {
	c.trusted["logging calls (zerolog / pkg/logger) have no effect on modelled state; their arguments are not evaluated"] = true
	if chainHasPanic(x) || strings.HasPrefix(fn.Name(), "Panic") || strings.HasPrefix(fn.Name(), "Fatal") {
		c.doPanic(st, x.Pos(), "logger panic")
		return Tuple{}
	}
	sig := fn.Type().(*types.Signature)
	switch sig.Results().Len() {
	case 0:
		return Tuple{}
	case 1:
		if rt := sig.Results().At(0).Type(); isBoolType(rt) {
			// Event.Enabled() and the like: an arbitrary boolean
			var facts []Term
			return c.fresh(rt, "logflag", &facts)
		}
		return Opaque{sig.Results().At(0).Type()}
	}
	t := Tuple{}
	for i := 0; i < sig.Results().Len(); i++ {
		t.Vs = append(t.Vs, Opaque{sig.Results().At(i).Type()})
	}
	return t
}
