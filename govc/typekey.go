package main

import "regexp"

// typeArgsRe matches a bracketed type-argument or type-parameter list ("[T, O]", "[T TSTable, O any]"); array
// lengths ("[8]") and slice brackets ("[]") do not match.
var typeArgsRe = regexp.MustCompile(`\[[A-Za-z_][^\[\]]*\]`)

// splitTopLevel splits a space separated list of s-expressions / atoms at nesting depth zero.
func splitTopLevel(s string) []string {
	var out []string
	depth, start := 0, -1
	for i := 0; i < len(s); i++ {
		ch := s[i]
		switch {
		case ch == '(':
			if depth == 0 && start < 0 {
				start = i
			}
			depth++
		case ch == ')':
			depth--
			if depth == 0 {
				out = append(out, s[start:i+1])
				start = -1
			}
		case ch == ' ':
			if depth == 0 && start >= 0 {
				out = append(out, s[start:i])
				start = -1
			}
		default:
			if depth == 0 && start < 0 {
				start = i
			}
		}
	}
	if start >= 0 {
		out = append(out, s[start:])
	}
	return out
}
