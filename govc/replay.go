package main

import (
	"encoding/json"
	"fmt"
	"go/ast"
	"go/types"
	"math/big"
	"os"
	"os/exec"
	"path/filepath"
	"regexp"
	"strings"
)

// ---------------------------------------------------------------------------------------------
// model parsing

var valueRe = regexp.MustCompile(`^\(\((\S+)\s+(.*)\)\)$`)

// parseModel reads "((sym value))" lines of solver output.
func parseModel(out string) map[string]string {
	m := map[string]string{}
	for _, l := range strings.Split(out, "\n") {
		l = strings.TrimSpace(l)
		if mm := valueRe.FindStringSubmatch(l); mm != nil {
			m[mm[1]] = strings.TrimSpace(mm[2])
		}
	}
	return m
}

func smtValueInt(v string) (*big.Int, bool) {
	v = strings.TrimSpace(v)
	if v == "true" {
		return big.NewInt(1), true
	}
	if v == "false" {
		return big.NewInt(0), true
	}
	return litInt(Term{S: v})
}

// ---------------------------------------------------------------------------------------------
// spec -> Go translation (for replay only)

type goTr struct {
	c       *Ctx
	pk      *Pkg
	helpers map[string]string // name -> Go source of helper functions
	imports map[string]bool
	oldVars map[string]string // param name -> name of its saved copy
	inOld   int
	fail    string
}

func (g *goTr) failf(f string, a ...interface{}) string {
	if g.fail == "" {
		g.fail = fmt.Sprintf(f, a...)
	}
	return "false"
}

func (g *goTr) expr(x SExpr) string {
	switch n := x.(type) {
	case *SLit:
		switch {
		case n.Int != nil:
			return n.Int.String()
		case n.Bool != nil:
			return fmt.Sprint(*n.Bool)
		case n.Str != nil:
			return fmt.Sprintf("%q", *n.Str)
		}
	case *SIdent:
		if g.inOld > 0 {
			if o, ok := g.oldVars[n.Name]; ok {
				return o
			}
		}
		switch n.Name {
		case "MaxInt64":
			g.imports["math"] = true
			return "math.MaxInt64"
		case "MinInt64":
			g.imports["math"] = true
			return "math.MinInt64"
		}
		return n.Name
	case *SUn:
		return "(" + n.Op + g.expr(n.X) + ")"
	case *SBin:
		switch n.Op {
		case "==>":
			return "(!(" + g.expr(n.L) + ") || (" + g.expr(n.R) + "))"
		case "<==>":
			return "((" + g.expr(n.L) + ") == (" + g.expr(n.R) + "))"
		case "==", "!=":
			// sequence equality
			if g.isSeq(n.L) || g.isSeq(n.R) {
				g.imports["slices"] = true
				s := "slices.Equal(" + g.expr(n.L) + ", " + g.expr(n.R) + ")"
				if n.Op == "!=" {
					return "!" + s
				}
				return s
			}
		}
		return "(" + g.expr(n.L) + " " + n.Op + " " + g.expr(n.R) + ")"
	case *SIndex:
		return g.expr(n.X) + "[" + g.expr(n.I) + "]"
	case *SSlice:
		lo, hi := "", ""
		if n.Lo != nil {
			lo = g.expr(n.Lo)
		}
		if n.Hi != nil {
			hi = g.expr(n.Hi)
		}
		return g.expr(n.X) + "[" + lo + ":" + hi + "]"
	case *SSel:
		return g.expr(n.X) + "." + n.Name
	case *SCall:
		name := ""
		switch f := n.Fun.(type) {
		case *SIdent:
			name = f.Name
		case *SSel:
			if id, ok := f.X.(*SIdent); ok {
				name = id.Name + "." + f.Name
			}
		}
		var args []string
		if name != "old" {
			for _, a := range n.Args {
				args = append(args, g.expr(a))
			}
		}
		switch name {
		case "old":
			g.inOld++
			s := g.expr(n.Args[0])
			g.inOld--
			return s
		case "len", "cap", "min", "max":
			return name + "(" + strings.Join(args, ", ") + ")"
		case "ite":
			g.helpers["govcIte"] = "func govcIte[T any](c bool, a, b T) T { if c { return a }; return b }"
			return "govcIte(" + strings.Join(args, ", ") + ")"
		case "fresh", "disjoint", "sameobj":
			return "true"
		case "bits", "math.Float64bits":
			g.imports["math"] = true
			return "math.Float64bits(" + args[0] + ")"
		case "frombits", "math.Float64frombits":
			g.imports["math"] = true
			return "math.Float64frombits(" + args[0] + ")"
		case "isNaN":
			g.imports["math"] = true
			return "math.IsNaN(" + args[0] + ")"
		case "flt":
			return "(" + args[0] + " < " + args[1] + ")"
		case "fle":
			return "(" + args[0] + " <= " + args[1] + ")"
		case "feq":
			return "(" + args[0] + " == " + args[1] + ")"
		case "bytes.Compare":
			g.imports["bytes"] = true
			return "bytes.Compare(" + strings.Join(args, ", ") + ")"
		}
		if _, ok := basicByName[name]; ok {
			return name + "(" + strings.Join(args, ", ") + ")"
		}
		if sf := g.findSpec(name); sf != nil {
			g.defineSpec(sf)
			return "govcSpec_" + sf.Name + "(" + strings.Join(args, ", ") + ")"
		}
		if g.pk != nil && g.pk.types != nil && g.pk.types.Scope().Lookup(name) != nil {
			return name + "(" + strings.Join(args, ", ") + ")"
		}
		return g.failf("cannot translate call %s", name)
	case *SQuant:
		return g.quant(n)
	}
	return g.failf("cannot translate %T", x)
}

func (g *goTr) isSeq(x SExpr) bool {
	switch n := x.(type) {
	case *SSlice:
		return true
	case *SIdent:
		if v, ok := g.c.entryParams[n.Name]; ok {
			_, isS := v.(Slice)
			return isS
		}
		if g.c.fr != nil {
			for _, r := range g.c.fr.results {
				if r.Name() == n.Name || (n.Name == "result" && len(g.c.fr.results) == 1) {
					_, isS := r.Type().Underlying().(*types.Slice)
					return isS
				}
			}
		}
	case *SCall:
		if id, ok := n.Fun.(*SIdent); ok && id.Name == "old" {
			return g.isSeq(n.Args[0])
		}
	}
	return false
}

func (g *goTr) findSpec(name string) *SpecFunc {
	for _, pk := range g.c.prog.pkgs {
		if pk.contracts == nil {
			continue
		}
		for _, sf := range pk.contracts.SpecFuncs {
			if sf.Name == name {
				return sf
			}
		}
	}
	return nil
}

func (g *goTr) defineSpec(sf *SpecFunc) {
	key := "govcSpec_" + sf.Name
	if _, ok := g.helpers[key]; ok {
		return
	}
	if sf.Decl || sf.Body == nil {
		g.failf("uninterpreted spec function %s cannot be replayed", sf.Name)
		return
	}
	g.helpers[key] = "" // break recursion
	var ps []string
	for _, p := range sf.Params {
		ps = append(ps, p.Name+" "+p.Type)
	}
	saveOld := g.inOld
	g.inOld = 0
	body := g.expr(sf.Body)
	g.inOld = saveOld
	g.helpers[key] = fmt.Sprintf("func %s(%s) %s { return %s }", key, strings.Join(ps, ", "), sf.Result, body)
}

// quant translates bounded quantifiers of the shape  forall k :: lo <= k && k < hi ==> body.
func (g *goTr) quant(n *SQuant) string {
	if len(n.Vars) != 1 {
		return g.failf("multi-variable quantifier")
	}
	v := n.Vars[0].Name
	var guard, body SExpr
	if n.Forall {
		b, ok := n.Body.(*SBin)
		if !ok || b.Op != "==>" {
			return g.failf("unbounded forall")
		}
		guard, body = b.L, b.R
	} else {
		b, ok := n.Body.(*SBin)
		if !ok || b.Op != "&&" {
			return g.failf("unbounded exists")
		}
		guard, body = b.L, b.R
	}
	var lo, hi string
	var rest []string
	var collect func(x SExpr)
	collect = func(x SExpr) {
		b, ok := x.(*SBin)
		if !ok {
			rest = append(rest, g.expr(x))
			return
		}
		switch b.Op {
		case "&&":
			collect(b.L)
			collect(b.R)
			return
		case "<=":
			if id, ok := b.R.(*SIdent); ok && id.Name == v && lo == "" {
				lo = g.expr(b.L)
				return
			}
			if id, ok := b.L.(*SIdent); ok && id.Name == v && hi == "" {
				hi = "(" + g.expr(b.R) + ")+1"
				return
			}
		case "<":
			if id, ok := b.L.(*SIdent); ok && id.Name == v && hi == "" {
				hi = g.expr(b.R)
				return
			}
			if id, ok := b.R.(*SIdent); ok && id.Name == v && lo == "" {
				lo = "(" + g.expr(b.L) + ")+1"
				return
			}
		}
		rest = append(rest, g.expr(x))
	}
	collect(guard)
	if lo == "" || hi == "" {
		return g.failf("quantifier without explicit bounds")
	}
	cond := "true"
	if len(rest) > 0 {
		cond = strings.Join(rest, " && ")
	}
	ty := n.Vars[0].Type
	if n.Forall {
		return fmt.Sprintf("func() bool { for %s := %s(%s); %s < %s(%s); %s++ { if (%s) && !(%s) { return false } }; return true }()", v, ty, lo, v, ty, hi, v, cond, g.expr(body))
	}
	return fmt.Sprintf("func() bool { for %s := %s(%s); %s < %s(%s); %s++ { if (%s) && (%s) { return true } }; return false }()", v, ty, lo, v, ty, hi, v, cond, g.expr(body))
}

// ---------------------------------------------------------------------------------------------
// replay of a refuted obligation on the real code

type ReplayResult struct {
	Status   string `json:"status"` // confirmed | not-confirmed | not-replayable
	Reason   string `json:"reason,omitempty"`
	TestFile string `json:"test_source,omitempty"`
	Output   string `json:"output,omitempty"`
	Inputs   map[string]string `json:"inputs,omitempty"`
	Command  string `json:"command,omitempty"`
}

const maxReplayElems = 512

// goLiteral renders a model value as a Go expression of type t.
func goScalarLit(t types.Type, v *big.Int) string {
	switch {
	case isBoolType(t):
		if v.Sign() != 0 {
			return "true"
		}
		return "false"
	case isFloatType(t):
		return fmt.Sprintf("math.Float64frombits(0x%x)", new(big.Int).And(v, new(big.Int).Sub(pow2(64), big.NewInt(1))))
	case isIntType(t):
		lo, hi, _ := typeRange(t)
		x := new(big.Int).Set(v)
		if x.Cmp(hi) > 0 && lo.Sign() < 0 {
			// two's complement bit-vector value of a signed type
			x.Sub(x, pow2(widthOf(t)))
		}
		ts := types.TypeString(t, func(p *types.Package) string { return "" })
		return fmt.Sprintf("%s(%s)", ts, x.String())
	}
	return ""
}

// buildReplay tries to construct concrete inputs from the solver model and run the real function.
func buildReplay(rep *FuncReport, o *Obligation) *ReplayResult {
	c := rep.Ctx
	res := &ReplayResult{Status: "not-replayable"}
	if rep.Kind != "func" || rep.FuncDecl == nil {
		res.Reason = "obligation is a lemma over specification functions (no code to run)"
		return res
	}
	fd := rep.FuncDecl
	pk := rep.PkgRef
	obj, _ := pk.info.Defs[fd.Name].(*types.Func)
	sig := obj.Type().(*types.Signature)
	if sig.Recv() != nil {
		res.Reason = "method receivers are not reconstructed from models"
		return res
	}
	model := parseModel(o.Verdict.Output)
	// pin the scalar inputs and ask for slice contents
	var pins []string
	for _, in := range c.inputs {
		if v, ok := model[in.Sym.S]; ok {
			pins = append(pins, fmt.Sprintf("(assert (= %s %s))", in.Sym.S, v))
		}
	}
	type elemQ struct {
		param string
		idx   int
		term  string
	}
	var eqs []elemQ
	for _, is := range c.inputSlices {
		lv, ok := smtValueInt(model[is.S.Len.S])
		if !ok {
			res.Reason = "no model value for len(" + is.Name + ")"
			return res
		}
		cv, _ := smtValueInt(model[is.S.Cap.S])
		if c.mode == ModeBV && lv.Cmp(pow2(63)) >= 0 {
			res.Reason = "negative slice length in model"
			return res
		}
		n := cv
		if n == nil || n.Cmp(lv) < 0 {
			n = lv
		}
		if n.Cmp(big.NewInt(maxReplayElems)) > 0 {
			res.Reason = fmt.Sprintf("model needs a slice of %s elements (cap); replay skipped", n.String())
			return res
		}
		srt := c.scalarSort(is.S.Elem)
		if srt == "" || srt == SStr {
			res.Reason = "slice of non-scalar elements is not reconstructed from models"
			return res
		}
		fam := c.elemPrefix(is.S.Elem)
		h0, ok := c.heapInit[fam]
		if !ok {
			continue
		}
		for i := 0; i < int(n.Int64()); i++ {
			t := Select(Select(h0, is.S.Ref), c.iadd(is.S.Off, c.idx(int64(i))))
			eqs = append(eqs, elemQ{is.Name, i, t.S})
		}
	}
	elemVals := map[string][]*big.Int{}
	if len(eqs) > 0 {
		var b strings.Builder
		b.WriteString("(set-option :produce-models true)\n(set-logic ALL)\n")
		for _, d := range c.decls {
			b.WriteString(d + "\n")
		}
		b.WriteString("(assert " + o.PC.S + ")\n(assert (not " + o.Goal.S + "))\n")
		for _, p := range pins {
			b.WriteString(p + "\n")
		}
		b.WriteString("(check-sat)\n")
		for _, q := range eqs {
			b.WriteString("(get-value (" + q.term + "))\n")
		}
		v := Solve(b.String(), 20, false, []string{o.Verdict.Backend})
		if v.Result != "sat" {
			v = Solve(b.String(), 20, false, nil)
		}
		if v.Result != "sat" {
			res.Reason = "could not re-obtain a model with element values (" + v.Result + ")"
			return res
		}
		lines := strings.Split(v.Output, "\n")
		k := 0
		for _, l := range lines[1:] {
			l = strings.TrimSpace(l)
			if !strings.HasPrefix(l, "((") || k >= len(eqs) {
				continue
			}
			// value is the last s-expression
			inner := l[2 : len(l)-2]
			val := lastSexp(inner)
			bi, ok := smtValueInt(val)
			if !ok {
				res.Reason = "unparsable element value " + val
				return res
			}
			elemVals[eqs[k].param] = append(elemVals[eqs[k].param], bi)
			k++
		}
	}
	// build Go source
	g := &goTr{c: c, pk: pk, helpers: map[string]string{}, imports: map[string]bool{"fmt": true, "testing": true}, oldVars: map[string]string{}}
	var setup []string
	var callArgs []string
	res.Inputs = map[string]string{}
	k := 0
	qual := func(p *types.Package) string {
		if p == pk.types {
			return ""
		}
		return p.Name()
	}
	for _, f := range fd.Type.Params.List {
		names := f.Names
		if len(names) == 0 {
			names = []*ast.Ident{{Name: fmt.Sprintf("arg%d", k)}}
		}
		for _, n := range names {
			pt := sig.Params().At(k).Type()
			k++
			name := n.Name
			if name == "_" {
				name = fmt.Sprintf("arg%d", k)
			}
			ts := types.TypeString(pt, qual)
			switch u := pt.Underlying().(type) {
			case *types.Basic:
				v, ok := c.entryParams[n.Name].(Scalar)
				if !ok {
					res.Reason = "parameter " + name + " not reconstructible"
					return res
				}
				mv, ok := smtValueInt(model[v.T.S])
				if !ok {
					if isStringType(pt) {
						res.Reason = "string parameters are not reconstructed from models"
						return res
					}
					mv = big.NewInt(0)
				}
				lit := goScalarLit(pt, mv)
				if lit == "" {
					res.Reason = "parameter type " + ts + " not reconstructible"
					return res
				}
				if isFloatType(pt) {
					g.imports["math"] = true
				}
				setup = append(setup, fmt.Sprintf("var %s %s = %s", name, ts, lit))
				res.Inputs[name] = lit
			case *types.Slice:
				sv, ok := c.entryParams[n.Name].(Slice)
				if !ok {
					res.Reason = "parameter " + name + " not reconstructible"
					return res
				}
				refv, _ := smtValueInt(model[sv.Ref.S])
				lv, _ := smtValueInt(model[sv.Len.S])
				cv, _ := smtValueInt(model[sv.Cap.S])
				if refv == nil || refv.Sign() == 0 {
					setup = append(setup, fmt.Sprintf("var %s %s = nil", name, ts))
					res.Inputs[name] = "nil"
					break
				}
				if cv == nil || cv.Cmp(lv) < 0 {
					cv = lv
				}
				var elems []string
				vals := elemVals[n.Name]
				for i := 0; i < int(cv.Int64()); i++ {
					var ev *big.Int = big.NewInt(0)
					if i < len(vals) {
						ev = vals[i]
					}
					elems = append(elems, goScalarLit(u.Elem(), ev))
				}
				lit := fmt.Sprintf("%s{%s}[:%d:%d]", ts, strings.Join(elems, ", "), lv.Int64(), cv.Int64())
				if isFloatType(u.Elem()) {
					g.imports["math"] = true
				}
				setup = append(setup, fmt.Sprintf("var %s %s = %s", name, ts, lit))
				res.Inputs[name] = lit
				setup = append(setup, fmt.Sprintf("govcOld_%s := append(%s(nil), %s...)", name, ts, name))
				g.oldVars[name] = "govcOld_" + name
			default:
				res.Reason = "parameter type " + ts + " is not reconstructed from models"
				return res
			}
			callArgs = append(callArgs, name)
		}
	}
	// aliasing between slice parameters is not reproduced
	rn := resultNames(sig)
	call := fd.Name.Name + "(" + strings.Join(callArgs, ", ") + ")"
	var check string
	isSafety := o.Kind != "ensures"
	if isSafety && (strings.HasPrefix(o.Kind, "inv-") || o.Kind == "unwind" || o.Kind == "decreases" || o.Kind == "call") {
		// an internal proof step failed: run the real function on the model and test every translatable postcondition
		var parts []string
		for _, e := range rep.Contract.Ensures {
			g.fail = ""
			s := g.expr(e.Expr)
			if g.fail == "" {
				parts = append(parts, "("+s+")")
			}
		}
		g.fail = ""
		if len(parts) > 0 {
			isSafety = false
			check = strings.Join(parts, " && ")
		}
	} else if !isSafety {
		// find the clause
		var cl *Clause
		for _, e := range rep.Contract.Ensures {
			if e.Text == o.Text {
				cl = e
			}
		}
		if cl == nil {
			res.Reason = "clause not found"
			return res
		}
		check = g.expr(cl.Expr)
		if g.fail != "" {
			res.Reason = "postcondition not translatable to Go: " + g.fail
			return res
		}
	}
	var b strings.Builder
	b.WriteString("package " + pk.types.Name() + "\n\nimport (\n")
	for imp := range g.imports {
		b.WriteString(fmt.Sprintf("\t%q\n", imp))
	}
	b.WriteString(")\n\n")
	for _, h := range g.helpers {
		b.WriteString(h + "\n")
	}
	b.WriteString("\nfunc TestGovcReplay(t *testing.T) {\n")
	for _, s := range setup {
		b.WriteString("\t" + s + "\n")
	}
	for name, o := range g.oldVars {
		b.WriteString("\t_ = " + o + "\n\t_ = " + name + "\n")
	}
	b.WriteString("\tdefer func() {\n\t\tif r := recover(); r != nil {\n\t\t\tfmt.Printf(\"GOVC-REPLAY: PANIC %v\\n\", r)\n\t\t}\n\t}()\n")
	if len(rn) > 0 {
		b.WriteString("\t" + strings.Join(rn, ", ") + " := " + call + "\n")
		for _, r := range rn {
			b.WriteString("\t_ = " + r + "\n")
		}
	} else {
		b.WriteString("\t" + call + "\n")
	}
	if isSafety {
		b.WriteString("\tfmt.Println(\"GOVC-REPLAY: RETURNED\")\n")
	} else {
		b.WriteString("\tif " + check + " {\n\t\tfmt.Println(\"GOVC-REPLAY: HOLDS\")\n\t} else {\n\t\tfmt.Println(\"GOVC-REPLAY: VIOLATED\")\n\t}\n")
	}
	b.WriteString("}\n")
	src := b.String()
	res.TestFile = src
	// run
	dir, err := os.MkdirTemp("", "govc-replay-*")
	if err != nil {
		res.Reason = err.Error()
		return res
	}
	defer os.RemoveAll(dir)
	tf := filepath.Join(dir, "zz_govc_replay_test.go")
	os.WriteFile(tf, []byte(src), 0o644)
	ov := map[string]map[string]string{"Replace": {filepath.Join(pk.dir, "zz_govc_replay_test.go"): tf}}
	ovb, _ := json.Marshal(ov)
	ovf := filepath.Join(dir, "overlay.json")
	os.WriteFile(ovf, ovb, 0o644)
	cmd := exec.Command("bash", "-c", fmt.Sprintf("ulimit -v 8000000; cd %s && go test -v -overlay %s -vet=off -count=1 -timeout 60s -run '^TestGovcReplay$' ./%s/ 2>&1", c.prog.root, ovf, pk.rel))
	cmd.Env = append(os.Environ(), "GOFLAGS=-mod=mod", "GOPROXY=off")
	out, _ := cmd.CombinedOutput()
	res.Output = string(out)
	res.Command = "go test -overlay <ov> -vet=off -count=1 -timeout 60s -run '^TestGovcReplay$' ./" + pk.rel + "/"
	if len(res.Output) > 4000 {
		res.Output = res.Output[:4000]
	}
	switch {
	case strings.Contains(res.Output, "GOVC-REPLAY: VIOLATED"):
		res.Status = "confirmed"
	case strings.Contains(res.Output, "GOVC-REPLAY: PANIC"):
		if isSafety || true {
			res.Status = "confirmed"
		}
	case strings.Contains(res.Output, "GOVC-REPLAY: HOLDS"), strings.Contains(res.Output, "GOVC-REPLAY: RETURNED"):
		res.Status = "not-confirmed"
		res.Reason = "the real code does not misbehave on the solver's model"
	case strings.Contains(res.Output, "panic: test timed out"):
		if isSafety {
			res.Status = "confirmed"
			res.Reason = "the real code does not terminate within 60s on the model"
		}
	default:
		res.Status = "not-replayable"
		res.Reason = "replay test did not build or run (package does not compile in this tree?)"
	}
	return res
}

func lastSexp(s string) string {
	s = strings.TrimSpace(s)
	if strings.HasSuffix(s, ")") {
		depth := 0
		for i := len(s) - 1; i >= 0; i-- {
			switch s[i] {
			case ')':
				depth++
			case '(':
				depth--
				if depth == 0 {
					return s[i:]
				}
			}
		}
	}
	if i := strings.LastIndexByte(s, ' '); i >= 0 {
		return s[i+1:]
	}
	return s
}
