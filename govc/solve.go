package main

import (
	"bytes"
	"context"
	"fmt"
	"os"
	"os/exec"
	"path/filepath"
	"strings"
	"sync"
	"time"
)

// Verdict of one solver query.
type Verdict struct {
	Result  string // "unsat", "sat", "unknown", "timeout", "error"
	Backend string
	Ms      int64
	Output  string // raw solver output (model for sat)
	All     map[string]string // backend -> result (thorough cross-check)
}

type backend struct {
	name string
	argv func(file string, timeoutS int) []string
	// adapt rewrites the query text for this backend (e.g. cvc5 option order).
	adapt func(q string) string
}

var backends = []backend{
	{"z3-new", func(f string, t int) []string { return []string{"z3-new", "-smt2", fmt.Sprintf("-T:%d", t), f} }, nil},
	{"z3", func(f string, t int) []string { return []string{"z3", "-smt2", fmt.Sprintf("-T:%d", t), f} }, nil},
	{"cvc5", func(f string, t int) []string {
		return []string{"cvc5", "--lang=smt2", fmt.Sprintf("--tlimit=%d", t*1000), "--produce-models", f}
	}, nil},
}

var (
	scratchDir  string
	scratchOnce sync.Once
	querySeq    int
	queryMu     sync.Mutex
)

func scratch() string {
	scratchOnce.Do(func() {
		d, err := os.MkdirTemp("", "govc-*")
		if err != nil {
			panic(err)
		}
		scratchDir = d
	})
	return scratchDir
}

func cleanupScratch() {
	if scratchDir != "" {
		os.RemoveAll(scratchDir)
	}
}

func firstLine(s string) string {
	s = strings.TrimSpace(s)
	if i := strings.IndexByte(s, '\n'); i >= 0 {
		return strings.TrimSpace(s[:i])
	}
	return s
}

func runBackend(ctx context.Context, b backend, query string, timeoutS int) (string, string) {
	queryMu.Lock()
	querySeq++
	n := querySeq
	queryMu.Unlock()
	file := filepath.Join(scratch(), fmt.Sprintf("q%d-%s.smt2", n, b.name))
	q := query
	if b.adapt != nil {
		q = b.adapt(q)
	}
	if err := os.WriteFile(file, []byte(q), 0o600); err != nil {
		return "error", err.Error()
	}
	defer os.Remove(file)
	argv := b.argv(file, timeoutS)
	cctx, cancel := context.WithTimeout(ctx, time.Duration(timeoutS+2)*time.Second)
	defer cancel()
	cmd := exec.CommandContext(cctx, argv[0], argv[1:]...)
	var out bytes.Buffer
	cmd.Stdout = &out
	cmd.Stderr = &out
	_ = cmd.Run()
	o := out.String()
	fl := firstLine(o)
	switch fl {
	case "unsat", "sat", "unknown":
		return fl, o
	case "timeout":
		return "timeout", o
	}
	if cctx.Err() != nil {
		return "timeout", o
	}
	if strings.Contains(o, "timeout") || strings.Contains(o, "interrupted") {
		return "timeout", o
	}
	return "error", o
}

// Solve races the back ends on one query; the first definitive answer (sat/unsat) wins.
// With all=true every back end runs to completion and disagreement is reported as "error".
func Solve(query string, timeoutS int, all bool, use []string) Verdict {
	start := time.Now()
	type res struct {
		b      string
		r, out string
	}
	var bs []backend
	for _, b := range backends {
		if len(use) == 0 {
			bs = append(bs, b)
			continue
		}
		for _, u := range use {
			if u == b.name {
				bs = append(bs, b)
			}
		}
	}
	ctx, cancel := context.WithCancel(context.Background())
	defer cancel()
	ch := make(chan res, len(bs))
	// staged racing: the first back end gets a head start; the others join only if it has not answered yet
	for i, b := range bs {
		delay := time.Duration(0)
		if i > 0 && !all {
			delay = 1200 * time.Millisecond
		}
		go func(b backend, delay time.Duration) {
			if delay > 0 {
				select {
				case <-ctx.Done():
					ch <- res{b.name, "skipped", ""}
					return
				case <-time.After(delay):
				}
			}
			r, o := runBackend(ctx, b, query, timeoutS)
			ch <- res{b.name, r, o}
		}(b, delay)
	}
	v := Verdict{Result: "unknown", All: map[string]string{}}
	var lastOut string
	for range bs {
		r := <-ch
		v.All[r.b] = r.r
		if r.r == "sat" || r.r == "unsat" {
			if v.Result == "sat" || v.Result == "unsat" {
				if v.Result != r.r {
					v.Result = "error"
					v.Output += "\nSOLVER DISAGREEMENT: " + v.Backend + " vs " + r.b + "=" + r.r
				}
				continue
			}
			v.Result, v.Backend, v.Output = r.r, r.b, r.out
			v.Ms = time.Since(start).Milliseconds()
			if !all {
				cancel()
				return v
			}
		} else {
			lastOut = r.b + ": " + r.out
			if v.Result == "unknown" && r.r == "timeout" {
				v.Backend = r.b
			}
		}
	}
	if v.Result == "unknown" {
		// distinguish timeout / error
		allErr := true
		for _, r := range v.All {
			if r != "error" {
				allErr = false
			}
		}
		if allErr {
			v.Result = "error"
		}
		v.Output = lastOut
		v.Ms = time.Since(start).Milliseconds()
	}
	if v.Result == "unknown" && !all && len(use) == 0 && !noSeedPortfolio && timeoutS >= 8 {
		// Quantifier instantiation is sensitive to symbol numbering: an edit anywhere in a function can turn a sub-second
		// proof into a time-out. Before giving up, try the primary solver again under a few different random seeds.
		type sres struct {
			k      int
			r, out string
		}
		sctx, scancel := context.WithCancel(context.Background())
		defer scancel()
		seeds := []int{1, 2, 3, 4}
		sch := make(chan sres, len(seeds))
		for _, k := range seeds {
			go func(k int) {
				b := backend{name: fmt.Sprintf("z3-new-seed%d", k), argv: func(f string, t int) []string {
					return []string{"z3-new", "-smt2", fmt.Sprintf("-T:%d", t), fmt.Sprintf("smt.random_seed=%d", k), fmt.Sprintf("sat.random_seed=%d", k), f}
				}}
				r, o := runBackend(sctx, b, query, timeoutS)
				sch <- sres{k, r, o}
			}(k)
		}
		for range seeds {
			r := <-sch
			v.All[fmt.Sprintf("z3-new-seed%d", r.k)] = r.r
			if r.r == "unsat" || r.r == "sat" {
				v.Result, v.Backend, v.Output = r.r, fmt.Sprintf("z3-new(seed %d)", r.k), r.out
				v.Ms = time.Since(start).Milliseconds()
				scancel()
				break
			}
		}
	}
	return v
}

// noSeedPortfolio disables the second stage (cover checks and light queries do not need it).
var noSeedPortfolio bool
