package main

import (
	"os"
	"fmt"
	"go/ast"
	"go/token"
	"go/types"
	"sort"
	"strings"
)

// outcome of executing a statement: the fall-through state plus pending break / continue states by label.
type outcome struct {
	normal *State
	breaks map[string]*State
	conts  map[string]*State
}

func (c *Ctx) addJump(m *map[string]*State, label string, st *State) {
	if st.dead() {
		return
	}
	if *m == nil {
		*m = map[string]*State{}
	}
	if old, ok := (*m)[label]; ok {
		(*m)[label] = c.merge(old, st)
	} else {
		(*m)[label] = st
	}
}

func (c *Ctx) mergeOutcomes(a, b outcome) outcome {
	r := outcome{}
	switch {
	case a.normal.dead():
		r.normal = b.normal
	case b.normal.dead():
		r.normal = a.normal
	default:
		r.normal = c.merge(a.normal, b.normal)
	}
	for k, v := range a.breaks {
		c.addJump(&r.breaks, k, v)
	}
	for k, v := range b.breaks {
		c.addJump(&r.breaks, k, v)
	}
	for k, v := range a.conts {
		c.addJump(&r.conts, k, v)
	}
	for k, v := range b.conts {
		c.addJump(&r.conts, k, v)
	}
	return r
}

func (c *Ctx) execBlock(st *State, list []ast.Stmt) outcome {
	out := outcome{normal: st}
	for _, s := range list {
		if out.normal.dead() {
			break
		}
		o := c.exec(out.normal, s, "")
		out.normal = o.normal
		for k, v := range o.breaks {
			c.addJump(&out.breaks, k, v)
		}
		for k, v := range o.conts {
			c.addJump(&out.conts, k, v)
		}
	}
	return out
}

// exec runs one statement on st (mutated in place for straight-line statements).
func (c *Ctx) exec(st *State, s ast.Stmt, label string) outcome {
	c.curPos = s.Pos()
	c.checkAtStmt(st, s)
	switch x := s.(type) {
	case *ast.BlockStmt:
		return c.execBlock(st, x.List)
	case *ast.EmptyStmt:
		return outcome{normal: st}
	case *ast.ExprStmt:
		c.eval(st, x.X)
		return outcome{normal: st}
	case *ast.AssignStmt:
		c.execAssign(st, x)
		return outcome{normal: st}
	case *ast.IncDecStmt:
		t := c.typeOf(x.X)
		p := c.place(st, x.X)
		v := c.asScalar(c.readPlace(st, p), t)
		op := token.ADD
		if x.Tok == token.DEC {
			op = token.SUB
		}
		one := IntLit64(v.T.Sort, 1)
		c.writePlace(st, p, Scalar{c.nameIfBig(c.intBinop(st, op, v.T, one, t, t, x.Pos()), "inc"), t})
		return outcome{normal: st}
	case *ast.DeclStmt:
		c.execDecl(st, x)
		return outcome{normal: st}
	case *ast.IfStmt:
		return c.execIf(st, x)
	case *ast.ForStmt:
		return c.execFor(st, x, label)
	case *ast.RangeStmt:
		return c.execRange(st, x, label)
	case *ast.SwitchStmt:
		return c.execSwitch(st, x, label)
	case *ast.LabeledStmt:
		return c.exec(st, x.Stmt, x.Label.Name)
	case *ast.ReturnStmt:
		c.execReturn(st, x)
		return outcome{}
	case *ast.BranchStmt:
		lbl := ""
		if x.Label != nil {
			lbl = x.Label.Name
		}
		out := outcome{}
		switch x.Tok {
		case token.BREAK:
			c.addJump(&out.breaks, lbl, st)
		case token.CONTINUE:
			c.addJump(&out.conts, lbl, st)
		default:
			unsupp("%s statement at %s", x.Tok, c.posStr(x.Pos()))
		}
		return out
	case *ast.DeferStmt:
		flag := c.deferFlags[x]
		if flag == nil {
			unsupp("defer inside a closure or loop body that was not pre-scanned at %s", c.posStr(x.Pos()))
		}
		found := false
		for _, d := range c.fr.defers {
			if d.flag == flag {
				found = true
			}
		}
		if !found {
			c.fr.defers = append(c.fr.defers, &deferred{call: x.Call, flag: flag})
		}
		st.vars[flag] = Scalar{TTrue, tBool}
		return outcome{normal: st}
	case *ast.GoStmt:
		unsupp("go statement at %s", c.posStr(x.Pos()))
	case *ast.SelectStmt:
		return c.execSelect(st, x, label)
	case *ast.SendStmt:
		unsupp("channel operation at %s", c.posStr(x.Pos()))
	case *ast.TypeSwitchStmt:
		unsupp("type switch at %s", c.posStr(x.Pos()))
	}
	unsupp("unsupported statement %T at %s", s, c.posStr(s.Pos()))
	return outcome{}
}

func (c *Ctx) execDecl(st *State, x *ast.DeclStmt) {
	gd, ok := x.Decl.(*ast.GenDecl)
	if !ok {
		return
	}
	for _, sp := range gd.Specs {
		vs, ok := sp.(*ast.ValueSpec)
		if !ok {
			continue
		}
		if len(vs.Values) == 1 && len(vs.Names) > 1 {
			v := c.eval(st, vs.Values[0]).(Tuple)
			for i, n := range vs.Names {
				if obj := c.pkg.info.Defs[n]; obj != nil && n.Name != "_" {
					c.declVar(st, obj, v.Vs[i])
				}
			}
			continue
		}
		for i, n := range vs.Names {
			obj := c.pkg.info.Defs[n]
			if obj == nil || n.Name == "_" {
				if i < len(vs.Values) {
					c.eval(st, vs.Values[i])
				}
				continue
			}
			if i < len(vs.Values) {
				c.declVar(st, obj, c.eval(st, vs.Values[i]))
				continue
			}
			t := obj.Type()
			if at, isArr := t.Underlying().(*types.Array); isArr {
				r := c.allocRef(st)
				c.zeroRow(st, c.elemPrefix(at.Elem()), at.Elem(), r)
				st.vars[obj] = ArrayV{r, at.Len(), at.Elem()}
				continue
			}
			if !validType(t) || c.opaqueType(t) {
				st.vars[obj] = Opaque{t}
				continue
			}
			c.declVar(st, obj, nil)
		}
	}
}

func (c *Ctx) execAssign(st *State, x *ast.AssignStmt) {
	switch x.Tok {
	case token.ASSIGN, token.DEFINE:
		var vals []Val
		if len(x.Rhs) == 1 && len(x.Lhs) > 1 {
			switch r := ast.Unparen(x.Rhs[0]).(type) {
			case *ast.TypeAssertExpr:
				vals = c.evalTypeAssert(st, r, true).(Tuple).Vs
			case *ast.IndexExpr:
				// v, ok := m[k]
				p := c.place(st, r)
				if !p.isMap || p.mapTy == nil {
					unsupp("comma-ok index at %s", c.posStr(x.Pos()))
				}
				vals = []Val{c.mapLoad(st, p), Scalar{c.mapHas(st, p.mapTy, p.mapRef, c.mapKeyTerm(p)), tBool}}
			default:
				v := c.eval(st, x.Rhs[0])
				t, ok := v.(Tuple)
				if !ok || len(t.Vs) != len(x.Lhs) {
					unsupp("tuple assignment mismatch at %s", c.posStr(x.Pos()))
				}
				vals = t.Vs
			}
		} else {
			for _, r := range x.Rhs {
				vals = append(vals, c.eval(st, r))
			}
		}
		// places are computed after the RHS values (Go evaluates index operands first, but our operands are pure)
		for i, l := range x.Lhs {
			if id, ok := l.(*ast.Ident); ok {
				if id.Name == "_" {
					continue
				}
				if x.Tok == token.DEFINE {
					if obj := c.pkg.info.Defs[id]; obj != nil {
						if at, isArr := obj.Type().Underlying().(*types.Array); isArr {
							// array value copy
							src, ok := vals[i].(ArrayV)
							if !ok {
								unsupp("array definition from %T", vals[i])
							}
							_ = at
							st.vars[obj] = c.copyArray(st, src)
							continue
						}
						c.declVar(st, obj, vals[i])
						continue
					}
				}
			}
			p := c.place(st, l)
			c.writePlace(st, p, vals[i])
		}
	default:
		// op-assign
		op := map[token.Token]token.Token{token.ADD_ASSIGN: token.ADD, token.SUB_ASSIGN: token.SUB, token.MUL_ASSIGN: token.MUL,
			token.QUO_ASSIGN: token.QUO, token.REM_ASSIGN: token.REM, token.AND_ASSIGN: token.AND, token.OR_ASSIGN: token.OR,
			token.XOR_ASSIGN: token.XOR, token.SHL_ASSIGN: token.SHL, token.SHR_ASSIGN: token.SHR, token.AND_NOT_ASSIGN: token.AND_NOT}[x.Tok]
		t := c.typeOf(x.Lhs[0])
		p := c.place(st, x.Lhs[0])
		cur := c.readPlace(st, p)
		if isStringType(t) && op == token.ADD {
			c.needStr()
			c.declareUF("str.concat", []string{SStr, SStr}, SStr)
			r := c.asScalar(c.eval(st, x.Rhs[0]), t)
			c.writePlace(st, p, Scalar{app(SStr, "str.concat", c.asScalar(cur, t).T, r.T), t})
			return
		}
		if isFloatType(t) {
			r := c.asScalar(c.eval(st, x.Rhs[0]), t)
			c.writePlace(st, p, c.floatArith(op, c.asScalar(cur, t).T, r.T, t))
			return
		}
		if !isIntType(t) {
			unsupp("op-assign on %s at %s", t, c.posStr(x.Pos()))
		}
		var bt types.Type = t
		if op == token.SHL || op == token.SHR {
			bt = c.typeOf(x.Rhs[0])
		}
		r := c.asScalar(c.eval(st, x.Rhs[0]), bt)
		a := c.asScalar(cur, t)
		c.writePlace(st, p, Scalar{c.nameIfBig(c.intBinop(st, op, a.T, r.T, t, bt, x.Pos()), "op"), t})
	}
}

func (c *Ctx) copyArray(st *State, src ArrayV) ArrayV {
	r := c.allocRef(st)
	var fams [][2]string
	c.leafFamilies(c.elemPrefix(src.Elem), src.Elem, &fams)
	for _, f := range fams {
		h := c.heapGet(st, f[0], f[1])
		st.heaps[f[0]] = c.name(Store(h, r, Select(h, src.Ref)), "H_"+f[0])
	}
	return ArrayV{r, src.N, src.Elem}
}

func (c *Ctx) condTerm(st *State, e ast.Expr) Term {
	return c.nameIfBig(c.asScalar(c.eval(st, e), tBool).T, "cond")
}

func (c *Ctx) execIf(st *State, x *ast.IfStmt) outcome {
	if x.Init != nil {
		o := c.exec(st, x.Init, "")
		st = o.normal
		if st.dead() {
			return outcome{}
		}
	}
	var thenSt, elseSt *State
	if tS, fS, ok := c.splitCond(st, x.Cond); ok {
		thenSt, elseSt = tS, fS
	} else {
		cond := c.condTerm(st, x.Cond)
		if st.dead() {
			return outcome{}
		}
		thenSt = st.clone()
		thenSt.assume(c, cond)
		elseSt = st
		elseSt.assume(c, Not(cond))
	}
	if pe := c.pathMode; pe != nil && pe.depth == c.inlineDepth && pe.loopDepth == c.loopDepth && (pe.eligible == nil || pe.eligible[x]) {
		// split-paths: follow exactly one branch in this run (the other one is taken by another run)
		if pe.next() {
			if thenSt.dead() {
				return outcome{normal: thenSt}
			}
			return c.execBlock(thenSt, x.Body.List)
		}
		if x.Else != nil {
			return c.exec(elseSt, x.Else, "")
		}
		return outcome{normal: elseSt}
	}
	to := c.execBlock(thenSt, x.Body.List)
	eo := outcome{normal: elseSt}
	if x.Else != nil {
		eo = c.exec(elseSt, x.Else, "")
	}
	return c.mergeOutcomes(to, eo)
}

// execBodyPaths runs the loop body once per path through its (top-level) if statements; the invariant and variant
// obligations are raised per path. Returns the breaks of all runs merged and a dead normal state (the per-path
// continuation states have been checked already).
func (c *Ctx) execBodyPaths(iter *State, lp loopParts, ls *LoopSpec, ord int, haveDecr bool, decr0 Term, decrTy types.Type) outcome {
	all := outcome{}
	pending := [][]bool{nil}
	savedMode := c.pathMode
	defer func() { c.pathMode = savedMode }()
	runs := 0
	for len(pending) > 0 {
		prefix := pending[len(pending)-1]
		pending = pending[:len(pending)-1]
		runs++
		if runs > 64 {
			unsupp("split-paths: more than 64 paths through the body of loop %d", ord)
		}
		pe := &pathEnum{choices: append([]bool{}, prefix...), depth: c.inlineDepth, loopDepth: c.loopDepth}
		if ls.SplitTail {
			pe.eligible = map[*ast.IfStmt]bool{}
			tailIfs(lp.body, pe.eligible)
		}
		c.pathMode = pe
		bo := c.execBlock(iter.clone(), lp.body)
		c.pathMode = nil
		if os.Getenv("GOVC_VERBOSE") != "" {
			fmt.Fprintf(os.Stderr, "split-paths loop%d run %d: decisions %v normal-dead=%v\n", ord, runs, pe.choices, bo.normal == nil || bo.normal.dead())
		}
		// alternatives: every default ("then") decision made beyond the prefix can be flipped
		for k := len(pe.choices) - 1; k >= len(prefix); k-- {
			alt := append(append([]bool{}, pe.choices[:k]...), false)
			pending = append(pending, alt)
		}
		cont := bo.normal
		for _, k := range []string{"", lp.label} {
			if s, ok := bo.conts[k]; ok && (k == "" || lp.label != "") {
				if cont.dead() {
					cont = s
				} else {
					cont = c.merge(cont, s)
				}
				delete(bo.conts, k)
			}
		}
		if !cont.dead() {
			if lp.post != nil {
				lp.post(cont)
			}
			var auto []Term
			if lp.auto != nil {
				auto = lp.auto(cont)
			}
			c.goalMode++
			pinvs, pcls, pfacts := c.invariantTerms(cont, ls, lp.bodyPos, auto)
			c.goalMode--
			for i, t := range pinvs {
				c.oblige(cont, "inv-preserved", fmt.Sprintf("loop%d:path%d:%s", ord, runs, clauseLabel(pcls[i], i)), lp.pos, Implies(And(pfacts...), t), pcls[i].Text)
			}
			if haveDecr {
				env := c.newEnv(cont, c.entry)
				env.scopePos = lp.bodyPos
				d1 := env.idxTerm(env.eval(ls.Decreases.Expr))
				var goal Term
				if c.mode == ModeBV && !isSigned(decrTy) {
					goal = app(SBool, "bvult", d1, decr0)
				} else {
					goal = And(c.ile(c.idx(0), decr0), c.ilt(d1, decr0))
				}
				c.oblige(cont, "decreases", fmt.Sprintf("loop%d:path%d", ord, runs), lp.pos, goal, ls.Decreases.Text)
			}
		}
		for k, v := range bo.breaks {
			c.addJump(&all.breaks, k, v)
		}
		for k, v := range bo.conts {
			c.addJump(&all.conts, k, v)
		}
	}
	dead := iter.clone()
	dead.pc = TFalse
	all.normal = dead
	return all
}

// pathEnum enumerates the paths through the if statements of a loop body (depth-first, "then" first).
type pathEnum struct {
	choices   []bool // decisions of this run, in execution order
	pos       int
	depth     int // inline depth of the loop (ifs of inlined callees are not split)
	loopDepth int // loop nesting depth of the body (ifs inside nested loops are not split)
	eligible  map[*ast.IfStmt]bool // split-tail: only these if statements are split (nil: all)
}

// tailIfs collects the if statements of a statement list that are in tail position, or one of whose branches ends in
// a jump (continue / break / return); recursively inside such branches.
func tailIfs(list []ast.Stmt, out map[*ast.IfStmt]bool) {
	endsInJump := func(b *ast.BlockStmt) bool {
		if b == nil || len(b.List) == 0 {
			return false
		}
		switch b.List[len(b.List)-1].(type) {
		case *ast.BranchStmt, *ast.ReturnStmt:
			return true
		}
		return false
	}
	for i, s := range list {
		ifs, ok := s.(*ast.IfStmt)
		if !ok {
			continue
		}
		last := i == len(list)-1
		var elseBlock *ast.BlockStmt
		if eb, ok := ifs.Else.(*ast.BlockStmt); ok {
			elseBlock = eb
		}
		if last || endsInJump(ifs.Body) || endsInJump(elseBlock) {
			out[ifs] = true
			if last || endsInJump(ifs.Body) {
				tailIfs(ifs.Body.List, out)
			}
			if elseBlock != nil && (last || endsInJump(elseBlock)) {
				tailIfs(elseBlock.List, out)
			}
			if ei, ok := ifs.Else.(*ast.IfStmt); ok && last {
				tailIfs([]ast.Stmt{ei}, out)
			}
		}
	}
}

func (pe *pathEnum) next() bool {
	if pe.pos < len(pe.choices) {
		d := pe.choices[pe.pos]
		pe.pos++
		return d
	}
	pe.choices = append(pe.choices, true)
	pe.pos++
	return true
}

func (c *Ctx) execSwitch(st *State, x *ast.SwitchStmt, label string) outcome {
	if x.Init != nil {
		st = c.exec(st, x.Init, "").normal
		if st.dead() {
			return outcome{}
		}
	}
	var tag Val
	var tagT types.Type
	if x.Tag != nil {
		tag = c.eval(st, x.Tag)
		tagT = c.typeOf(x.Tag)
	}
	result := outcome{}
	rest := st
	var defaultBody []ast.Stmt
	hasDefault := false
	for _, cl := range x.Body.List {
		cc := cl.(*ast.CaseClause)
		if cc.List == nil {
			hasDefault = true
			defaultBody = cc.Body
			continue
		}
		var conds []Term
		for _, e := range cc.List {
			if x.Tag == nil {
				conds = append(conds, c.asScalar(c.eval(rest, e), tBool).T)
			} else {
				v := c.eval(rest, e)
				conds = append(conds, c.eqValTyped(tag, v, tagT, c.typeOf(e)))
			}
		}
		cond := c.nameIfBig(Or(conds...), "case")
		hit := rest.clone()
		hit.assume(c, cond)
		rest.assume(c, Not(cond))
		for _, s := range cc.Body {
			if b, ok := s.(*ast.BranchStmt); ok && b.Tok == token.FALLTHROUGH {
				unsupp("fallthrough at %s", c.posStr(b.Pos()))
			}
		}
		o := c.execBlock(hit, cc.Body)
		result = c.mergeOutcomes(result, o)
	}
	if hasDefault {
		o := c.execBlock(rest, defaultBody)
		result = c.mergeOutcomes(result, o)
	} else {
		result = c.mergeOutcomes(result, outcome{normal: rest})
	}
	// absorb breaks addressed to this switch
	for _, k := range []string{"", label} {
		if b, ok := result.breaks[k]; ok && (k == "" || label != "") {
			if result.normal.dead() {
				result.normal = b
			} else {
				result.normal = c.merge(result.normal, b)
			}
			delete(result.breaks, k)
		}
	}
	return result
}

// execSelect: channels are outside the model. A select is a nondeterministic choice among its clauses (any communication
// may be the one that is ready; a default clause may be taken too); only clauses of the forms "<-ch" and "default" are
// accepted, so no modelled value depends on what was communicated. Blocking forever is not a behaviour that matters for
// the partial-correctness claims made here.
func (c *Ctx) execSelect(st *State, x *ast.SelectStmt, label string) outcome {
	c.trusted["select: channels are not modelled; every clause is considered possible (nondeterministic choice)"] = true
	result := outcome{}
	for _, cl := range x.Body.List {
		cc := cl.(*ast.CommClause)
		if cc.Comm != nil {
			es, ok := cc.Comm.(*ast.ExprStmt)
			ue, isRecv := ast.Expr(nil), false
			if ok {
				if u, isU := ast.Unparen(es.X).(*ast.UnaryExpr); isU && u.Op == token.ARROW {
					ue, isRecv = u.X, true
				}
			}
			if !isRecv || !selectorChain(ue) && !isCallChain(ue) {
				unsupp("select clause other than a plain receive at %s", c.posStr(cc.Pos()))
			}
		}
		o := c.execBlock(st.clone(), cc.Body)
		result = c.mergeOutcomes(result, o)
	}
	for _, k := range []string{"", label} {
		if b, ok := result.breaks[k]; ok && (k == "" || label != "") {
			if result.normal.dead() {
				result.normal = b
			} else {
				result.normal = c.merge(result.normal, b)
			}
			delete(result.breaks, k)
		}
	}
	return result
}

// isCallChain: x.f().g() ... - a receive from a channel returned by a (logging-free, effect-free) accessor such as
// closer.CloseNotify(); the call is not evaluated.
func isCallChain(e ast.Expr) bool {
	switch x := e.(type) {
	case *ast.CallExpr:
		return len(x.Args) == 0 && isCallChain(x.Fun)
	case *ast.SelectorExpr:
		return isCallChain(x.X)
	case *ast.Ident:
		return true
	case *ast.ParenExpr:
		return isCallChain(x.X)
	}
	return false
}

func (c *Ctx) execReturn(st *State, x *ast.ReturnStmt) {
	res := c.fr.results
	if len(x.Results) > 0 {
		var vals []Val
		if len(x.Results) == 1 && len(res) > 1 {
			vals = c.eval(st, x.Results[0]).(Tuple).Vs
		} else {
			for _, r := range x.Results {
				vals = append(vals, c.eval(st, r))
			}
		}
		for i, r := range res {
			if _, op := st.vars[r].(Opaque); op {
				continue
			}
			if bx, isBox := st.vars[r].(boxed); isBox {
				c.store(st, c.elemPrefix(r.Type()), r.Type(), bx.Ref, c.idx(0), c.coerce(st, vals[i], r.Type()))
				continue
			}
			if _, isOp := vals[i].(Opaque); isOp {
				st.vars[r] = vals[i]
				continue
			}
			st.vars[r] = c.coerce(st, vals[i], r.Type())
		}
	}
	if st.dead() {
		return
	}
	c.fr.retStates = append(c.fr.retStates, &retState{st.clone()})
	st.pc = TFalse
}

// ---------------------------------------------------------------------------------------------
// loops

type loopInfo struct {
	modVars  map[types.Object]bool
	heapFams map[string]bool // families possibly written ("*" = unknown: all)
	roots    map[string][]ast.Expr
	resliced map[types.Object]bool // slice variables only ever re-sliced from themselves
	appended map[types.Object]bool
	rootVars map[string][]types.Object // per family: variables through which the family is written
	rootsUnk map[string]bool           // per family: written through something else
	ghosts   map[string]bool           // ghost variables written by contract-called callees
}

// analyseLoop collects the variables assigned and heap families written inside a loop (syntactically).
func (c *Ctx) analyseLoop(nodes ...ast.Node) *loopInfo {
	li := &loopInfo{modVars: map[types.Object]bool{}, heapFams: map[string]bool{}, resliced: map[types.Object]bool{}, appended: map[types.Object]bool{},
		rootVars: map[string][]types.Object{}, rootsUnk: map[string]bool{}}
	otherAssign := map[types.Object]bool{}
	atomicAddr := map[*ast.UnaryExpr]bool{}
	markLHS := func(e ast.Expr, rhs ast.Expr) {
		switch l := ast.Unparen(e).(type) {
		case *ast.Ident:
			if l.Name == "_" {
				return
			}
			obj := c.pkg.info.ObjectOf(l)
			if obj == nil {
				return
			}
			li.modVars[obj] = true
			if c.boxedVars[obj] {
				// an address-taken local lives in a heap box of its own type: writing it writes that family
				if validType(obj.Type()) && !c.opaqueType(obj.Type()) {
					var bf [][2]string
					c.leafFamilies(c.elemPrefix(obj.Type()), obj.Type(), &bf)
					for _, f := range bf {
						li.heapFams[f[0]] = true
						li.rootsUnk[f[0]] = true
					}
				} else {
					li.heapFams["*"] = true
				}
			}
			// classify x = x[a:b] / x = append(x, ...)
			if rhs != nil {
				switch r := ast.Unparen(rhs).(type) {
				case *ast.SliceExpr:
					if id, ok := ast.Unparen(r.X).(*ast.Ident); ok && c.pkg.info.ObjectOf(id) == obj && r.Max == nil {
						li.resliced[obj] = true
						return
					}
				case *ast.CallExpr:
					if id, ok := r.Fun.(*ast.Ident); ok && id.Name == "append" && len(r.Args) > 0 {
						if a0, ok := ast.Unparen(r.Args[0]).(*ast.Ident); ok && c.pkg.info.ObjectOf(a0) == obj {
							li.appended[obj] = true
							return
						}
					}
				}
			}
			otherAssign[obj] = true
		default:
			c.noteHeapWrite(li, e) // the written families, or "*" when they cannot be determined
		}
	}
	exiting := map[*ast.BlockStmt]bool{}
	for _, n := range nodes {
		if n != nil {
			// in a callback body "return" ends one invocation, not the repetition: nothing in it is an exit
			markExitingBlocks(n, !c.analysingCallback, c.analysingCallback, exiting)
		}
	}
	for _, n := range nodes {
		if n == nil {
			continue
		}
		ast.Inspect(n, func(nd ast.Node) bool {
			switch s := nd.(type) {
			case *ast.BlockStmt:
				if exiting[s] {
					// control never comes back to the loop head from this block: what it writes is not part of the
					// state at an arbitrary later iteration (the block itself is still executed symbolically)
					return false
				}
			case *ast.AssignStmt:
				for i, l := range s.Lhs {
					var rhs ast.Expr
					if len(s.Lhs) == len(s.Rhs) && (s.Tok == token.ASSIGN || s.Tok == token.DEFINE) {
						rhs = s.Rhs[i]
					}
					markLHS(l, rhs)
				}
			case *ast.IncDecStmt:
				markLHS(s.X, nil)
			case *ast.RangeStmt:
				if s.Key != nil {
					markLHS(s.Key, nil)
				}
				if s.Value != nil {
					markLHS(s.Value, nil)
				}
			case *ast.CallExpr:
				c.noteCallWrites(li, s)
				// &x passed straight to a sync/atomic function is handled there
				if se, ok := s.Fun.(*ast.SelectorExpr); ok && len(s.Args) > 0 {
					if id, ok := se.X.(*ast.Ident); ok {
						if pn, ok := c.pkg.info.ObjectOf(id).(*types.PkgName); ok && pn.Imported().Path() == "sync/atomic" {
							if u, ok := ast.Unparen(s.Args[0]).(*ast.UnaryExpr); ok {
								atomicAddr[u] = true
							}
						}
					}
				}
			case *ast.UnaryExpr:
				if s.Op == token.AND && !atomicAddr[s] {
					if _, isLit := ast.Unparen(s.X).(*ast.CompositeLit); !isLit {
						// address taken inside loop: be conservative
						li.heapFams["*"] = true
					}
				}
			}
			return true
		})
	}
	for o := range otherAssign {
		delete(li.resliced, o)
		delete(li.appended, o)
	}
	return li
}

// markExitingBlocks finds the blocks inside a loop from which control can never return to the loop head: blocks that end
// in return (outside function literals), in an unlabeled break that targets the analysed loop, or in a call of panic,
// and that contain no continue / goto / labeled branch.
func markExitingBlocks(n ast.Node, breakOK, inLit bool, out map[*ast.BlockStmt]bool) {
	switch x := n.(type) {
	case nil:
		return
	case *ast.BlockStmt:
		if x == nil {
			return
		}
		if len(x.List) > 0 && blockLeaves(x, breakOK, inLit) {
			out[x] = true
			return
		}
		for _, s := range x.List {
			markExitingBlocks(s, breakOK, inLit, out)
		}
	case *ast.IfStmt:
		markExitingBlocks(x.Body, breakOK, inLit, out)
		if x.Else != nil {
			markExitingBlocks(x.Else, breakOK, inLit, out)
		}
	case *ast.ForStmt:
		markExitingBlocks(x.Body, false, inLit, out)
	case *ast.RangeStmt:
		markExitingBlocks(x.Body, false, inLit, out)
	case *ast.SwitchStmt:
		for _, cc := range x.Body.List {
			for _, s := range cc.(*ast.CaseClause).Body {
				markExitingBlocks(s, false, inLit, out)
			}
		}
	case *ast.TypeSwitchStmt:
		for _, cc := range x.Body.List {
			for _, s := range cc.(*ast.CaseClause).Body {
				markExitingBlocks(s, false, inLit, out)
			}
		}
	case *ast.LabeledStmt:
		markExitingBlocks(x.Stmt, breakOK, inLit, out)
	}
}

func blockLeaves(b *ast.BlockStmt, breakOK, inLit bool) bool {
	switch last := b.List[len(b.List)-1].(type) {
	case *ast.ReturnStmt:
		if inLit {
			return false
		}
	case *ast.BranchStmt:
		if last.Tok != token.BREAK || last.Label != nil || !breakOK {
			return false
		}
	case *ast.ExprStmt:
		ce, ok := last.X.(*ast.CallExpr)
		if !ok {
			return false
		}
		if id, ok := ce.Fun.(*ast.Ident); !ok || id.Name != "panic" {
			return false
		}
	default:
		return false
	}
	clean := true
	for i, s := range b.List {
		isLast := i == len(b.List)-1
		ast.Inspect(s, func(nd ast.Node) bool {
			switch y := nd.(type) {
			case *ast.FuncLit:
				return false
			case *ast.BranchStmt:
				if isLast && nd == s {
					return true
				}
				if y.Tok == token.CONTINUE || y.Tok == token.GOTO || y.Label != nil {
					clean = false
				}
				if y.Tok == token.BREAK && y.Label == nil {
					// an inner unlabeled break leaves an inner loop/switch (stays in the block) or - if it is not nested
					// in one - leaves the analysed loop: either way it does not reach the loop head
				}
			case *ast.LabeledStmt:
				clean = false
			}
			return true
		})
	}
	return clean
}

func (c *Ctx) noteHeapWrite(li *loopInfo, e ast.Expr) {
	// never clears an "everything" mark left by another statement of the loop (a call with an unknown footprint)
	var fams [][2]string
	tv, ok := c.pkg.info.Types[e]
	if !ok || !validType(tv.Type) {
		li.heapFams["*"] = true
		return
	}
	switch l := ast.Unparen(e).(type) {
	case *ast.IndexExpr:
		if xt, ok := c.pkg.info.Types[l.X]; ok && xt.Type != nil {
			if m, isMap := xt.Type.Underlying().(*types.Map); isMap {
				// m[k] = v: the map families of that key/element type (maps are havocked wholesale at loop heads)
				for _, sfx := range []string{"#dom", "#len", "#val"} {
					li.heapFams[c.mapPrefix(m)+sfx] = true
					li.rootsUnk[c.mapPrefix(m)+sfx] = true
				}
				return
			}
		}
		c.leafFamilies(c.elemPrefix(tv.Type), tv.Type, &fams)
		_ = l
	case *ast.StarExpr:
		c.leafFamilies(c.elemPrefix(tv.Type), tv.Type, &fams)
	case *ast.SelectorExpr:
		// field write: family prefix depends on the owner struct; walk selection
		sel, ok := c.pkg.info.Selections[l]
		if !ok {
			li.heapFams["*"] = true
			return
		}
		owner := sel.Recv()
		if p, isP := owner.Underlying().(*types.Pointer); isP {
			owner = p.Elem()
		}
		prefix := c.elemPrefix(owner)
		cur := owner
		for _, fi := range sel.Index() {
			if p, isP := cur.Underlying().(*types.Pointer); isP {
				cur = p.Elem()
				prefix = c.elemPrefix(cur)
			}
			stt, ok := cur.Underlying().(*types.Struct)
			if !ok {
				li.heapFams["*"] = true
				return
			}
			prefix += "." + stt.Field(fi).Name()
			cur = stt.Field(fi).Type()
		}
		c.leafFamilies(prefix, cur, &fams)
		// the owner may itself be a by-value struct variable (then it is a variable write)
		if root := rootIdent(l); root != nil {
			if obj := c.pkg.info.ObjectOf(root); obj != nil {
				switch obj.Type().Underlying().(type) {
				case *types.Pointer, *types.Slice, *types.Map:
					// the write goes through the reference the variable holds: the variable itself keeps its value
				default:
					li.modVars[obj] = true
				}
			}
		}
	default:
		li.heapFams["*"] = true
		return
	}
	var root types.Object
	switch l := ast.Unparen(e).(type) {
	case *ast.IndexExpr:
		if id, ok := ast.Unparen(l.X).(*ast.Ident); ok {
			root = c.pkg.info.ObjectOf(id)
		}
	case *ast.SelectorExpr:
		if id, ok := ast.Unparen(l.X).(*ast.Ident); ok {
			if o := c.pkg.info.ObjectOf(id); o != nil {
				if _, isPtr := o.Type().Underlying().(*types.Pointer); isPtr {
					root = o
				}
			}
		}
	case *ast.StarExpr:
		if id, ok := ast.Unparen(l.X).(*ast.Ident); ok {
			root = c.pkg.info.ObjectOf(id)
		}
	}
	for _, f := range fams {
		li.heapFams[f[0]] = true
		if root != nil {
			li.rootVars[f[0]] = append(li.rootVars[f[0]], root)
		} else {
			li.rootsUnk[f[0]] = true
		}
	}
}

func rootIdent(e ast.Expr) *ast.Ident {
	for {
		switch x := e.(type) {
		case *ast.Ident:
			return x
		case *ast.SelectorExpr:
			e = x.X
		case *ast.IndexExpr:
			e = x.X
		case *ast.ParenExpr:
			e = x.X
		case *ast.StarExpr:
			e = x.X
		default:
			return nil
		}
	}
}

func (c *Ctx) noteCallWrites(li *loopInfo, call *ast.CallExpr) {
	if id, ok := call.Fun.(*ast.Ident); ok {
		if _, isB := c.pkg.info.ObjectOf(id).(*types.Builtin); isB {
			switch id.Name {
			case "append", "copy", "clear":
				if tv, ok := c.pkg.info.Types[call.Args[0]]; ok {
					if sl, ok := tv.Type.Underlying().(*types.Slice); ok {
						var fams [][2]string
						c.leafFamilies(c.elemPrefix(sl.Elem()), sl.Elem(), &fams)
						var root types.Object
						if a0, ok := ast.Unparen(call.Args[0]).(*ast.Ident); ok {
							root = c.pkg.info.ObjectOf(a0)
						}
						for _, f := range fams {
							li.heapFams[f[0]] = true
							if root != nil {
								li.rootVars[f[0]] = append(li.rootVars[f[0]], root)
							} else {
								li.rootsUnk[f[0]] = true
							}
						}
					}
				}
			}
			return
		}
	}
	if tv, ok := c.pkg.info.Types[call.Fun]; ok && tv.IsType() {
		return
	}
	// other calls: pure prelude functions write nothing; contracts with modifies clauses write their footprint's
	// families; unknown => everything
	var fn *types.Func
	switch f := ast.Unparen(call.Fun).(type) {
	case *ast.Ident:
		fn, _ = c.pkg.info.ObjectOf(f).(*types.Func)
	case *ast.SelectorExpr:
		if sel, ok := c.pkg.info.Selections[f]; ok {
			fn, _ = sel.Obj().(*types.Func)
		} else {
			fn, _ = c.pkg.info.ObjectOf(f.Sel).(*types.Func)
		}
	}
	if fn == nil {
		li.heapFams["*"] = true
		return
	}
	name := fullName(fn)
	if w, ok := preludeWrites[name]; ok {
		if w != "" {
			li.heapFams[w] = true
		}
		return
	}
	switch {
	case name == "slices.SortFunc" || name == "sort.Strings" || name == "sort.Slice":
		// sorts the slice argument in place
		if len(call.Args) > 0 {
			if tv, ok := c.pkg.info.Types[call.Args[0]]; ok && validType(tv.Type) {
				if sl, ok := tv.Type.Underlying().(*types.Slice); ok {
					var fams [][2]string
					c.leafFamilies(c.elemPrefix(sl.Elem()), sl.Elem(), &fams)
					for _, f := range fams {
						li.heapFams[f[0]] = true
						li.rootsUnk[f[0]] = true
					}
					return
				}
			}
		}
		li.heapFams["*"] = true
		return
	case name == "sort.StringSlice.Sort":
		li.heapFams["string"] = true
		li.rootsUnk["string"] = true
		return
	case strings.HasPrefix(name, "sync/atomic.") && fn.Type().(*types.Signature).Recv() == nil:
		// atomic.StoreInt32(&x.f, ...) and friends write the addressed place
		if len(call.Args) > 0 {
			if u, ok := ast.Unparen(call.Args[0]).(*ast.UnaryExpr); ok && u.Op == token.AND {
				c.noteHeapWrite(li, u.X)
				return
			}
		}
		li.heapFams["*"] = true
		return
	case strings.HasPrefix(name, "sync/atomic.") || strings.HasPrefix(name, "sync.") || strings.HasPrefix(name, "context.") ||
		strings.HasPrefix(name, "time.") || c.isLoggingCallee(fn):
		return
	}
	if _, ok := prelude[name]; ok {
		return
	}
	if fn.Pkg() != nil && fn.Pkg().Path() == c.prog.module+"/pkg/logger" {
		return
	}
	_, _, fc := c.prog.lookupFunc(fn)
	// interface whose values are pointers to one concrete type ("impl T"): the concrete method's contract (as in callStatic)
	if sig := fn.Type().(*types.Signature); fc == nil && sig.Recv() != nil {
		if _, isIface := sig.Recv().Type().Underlying().(*types.Interface); isIface {
			if n, td := c.ghostOwner(sig.Recv().Type()); td != nil && td.Impl != "" {
				if ipk := c.prog.byPath[n.Obj().Pkg().Path()]; ipk != nil && ipk.contracts != nil {
					key := td.Impl + "." + fn.Name()
					if ifc, ifd := ipk.contracts.Funcs[key], ipk.funcs[key]; ifc != nil && ifd != nil {
						if obj, ok := ipk.info.Defs[ifd.Name].(*types.Func); ok {
							if ifc.Pure || len(ifc.Modifies) == 0 {
								return
							}
							if c.noteContractWrites(li, call, obj, ifc) {
								return
							}
							li.heapFams["*"] = true
							return
						}
					}
				}
			}
		}
	}
	if fc == nil {
		if ic := c.ifaceContract(fn); ic != nil {
			fc = ic.fc
		}
	}
	if fc != nil && (fc.Pure || len(fc.Modifies) == 0) {
		return
	}
	if fc != nil && c.noteContractWrites(li, call, fn, fc) {
		return
	}
	li.heapFams["*"] = true
}

// noteContractWrites maps a callee's modifies clauses to heap families when every clause targets a parameter (p,
// p[a:b], p.f) whose argument type is known; reports false when it cannot.
func (c *Ctx) noteContractWrites(li *loopInfo, call *ast.CallExpr, fn *types.Func, fc *FuncContract) bool {
	_, fd, _ := c.prog.lookupFunc(fn)
	if fd == nil {
		// interface method / external function without a body: clauses of the shape recv.g (ghost field of the
		// interface type) are mapped to that ghost family; anything else is unknown
		sig := fn.Type().(*types.Signature)
		if sig.Recv() == nil {
			return false
		}
		n, td := c.ghostOwner(sig.Recv().Type())
		if td == nil {
			return false
		}
		gf := map[string]bool{}
		for _, cl := range fc.Modifies {
			s, ok := cl.Expr.(*SSel)
			if !ok {
				return false
			}
			id, ok := s.X.(*SIdent)
			if !ok || id.Name != "recv" {
				return false
			}
			found := false
			for _, g := range td.Ghost {
				if g.Name == s.Name {
					var fs [][2]string
					c.leafFamilies(c.elemPrefix(n)+"."+s.Name, c.resolveTypeText(g.Type), &fs)
					for _, f := range fs {
						gf[f[0]] = true
					}
					found = true
				}
			}
			if !found {
				return false
			}
		}
		for f := range gf {
			li.heapFams[f] = true
			li.rootsUnk[f] = true
		}
		return true
	}
	sig := fn.Type().(*types.Signature)
	paramType := map[string]types.Type{}
	k := 0
	for _, f := range fd.Type.Params.List {
		for _, n := range f.Names {
			if k < sig.Params().Len() {
				paramType[n.Name] = sig.Params().At(k).Type()
			}
			k++
		}
		if len(f.Names) == 0 {
			k++
		}
	}
	if fd.Recv != nil && len(fd.Recv.List) > 0 && len(fd.Recv.List[0].Names) > 0 && sig.Recv() != nil {
		paramType[fd.Recv.List[0].Names[0].Name] = sig.Recv().Type()
	}
	fams := map[string]bool{}
	addType := func(t types.Type) bool {
		switch u := t.Underlying().(type) {
		case *types.Slice:
			var fs [][2]string
			c.leafFamilies(c.elemPrefix(u.Elem()), u.Elem(), &fs)
			for _, f := range fs {
				fams[f[0]] = true
			}
			return true
		}
		return false
	}
	var ghostHits []string
	for _, cl := range fc.Modifies {
		x := cl.Expr
		if sl, ok := x.(*SSlice); ok {
			x = sl.X
		}
		switch n := x.(type) {
		case *SIdent:
			if _, isParam := paramType[n.Name]; !isParam {
				if g := c.ghostVarDecl(n.Name); g != nil {
					ghostHits = append(ghostHits, g.Name)
					continue
				}
			}
			t, ok := paramType[n.Name]
			if !ok || !validType(t) || !addType(t) {
				return false
			}
		case *SSel:
			id, ok := n.X.(*SIdent)
			if !ok {
				return false
			}
			t, ok := paramType[id.Name]
			if !ok || !validType(t) {
				return false
			}
			pt, isPtr := t.Underlying().(*types.Pointer)
			if !isPtr {
				return false
			}
			stt, isSt := pt.Elem().Underlying().(*types.Struct)
			if !isSt {
				return false
			}
			found := false
			for i := 0; i < stt.NumFields(); i++ {
				if stt.Field(i).Name() == n.Name {
					var fs [][2]string
					c.leafFamilies(c.elemPrefix(pt.Elem())+"."+n.Name, stt.Field(i).Type(), &fs)
					for _, f := range fs {
						fams[f[0]] = true
					}
					if sl, isSl := stt.Field(i).Type().Underlying().(*types.Slice); isSl {
						addType(types.NewSlice(sl.Elem()))
					}
					found = true
				}
			}
			if !found {
				// ghost field
				if nt, ok := pt.Elem().(*types.Named); ok {
					if td := c.typeDecl(nt); td != nil {
						for _, g := range td.Ghost {
							if g.Name == n.Name {
								var fs [][2]string
								c.leafFamilies(c.elemPrefix(pt.Elem())+"."+n.Name, c.resolveTypeText(g.Type), &fs)
								for _, f := range fs {
									fams[f[0]] = true
								}
								found = true
							}
						}
					}
				}
			}
			if !found {
				return false
			}
		default:
			return false
		}
	}
	for f := range fams {
		li.heapFams[f] = true
		li.rootsUnk[f] = true
	}
	for _, g := range ghostHits {
		if li.ghosts == nil {
			li.ghosts = map[string]bool{}
		}
		li.ghosts[g] = true
	}
	return true
}

// havocLoop prepares the state at an arbitrary iteration of a loop: modified variables and heap families are
// replaced by unknowns. Automatic frame facts: slices that are only re-sliced keep their object and end of capacity;
// rows of objects that existed before the loop and are not written (by family) keep their contents.
func (c *Ctx) havocLoop(pre *State, li *loopInfo) *State {
	st := pre.clone()
	var facts []Term
	// alloc may grow
	na := c.declare("alloc", SInt)
	facts = append(facts, app(SBool, "<=", pre.alloc, na))
	st.alloc = na
	objs := make([]types.Object, 0, len(li.modVars))
	for o := range li.modVars {
		objs = append(objs, o)
	}
	sort.Slice(objs, func(i, j int) bool { return objs[i].Pos() < objs[j].Pos() })
	for _, o := range objs {
		old, ok := pre.vars[o]
		if !ok {
			continue // declared inside the loop
		}
		if _, isBox := old.(boxed); isBox {
			continue
		}
		if _, isOp := old.(Opaque); isOp {
			continue
		}
		if _, isF := old.(FuncRef); isF {
			continue
		}
		nv := c.fresh(o.Type(), o.Name(), &facts)
		c.refsBounded(nv, st.alloc, &facts)
		if os, isSl := old.(Slice); isSl {
			ns := nv.(Slice)
			switch {
			case li.resliced[o] && !li.appended[o]:
				ns.Ref = os.Ref
				facts = append(facts, Eq(c.iadd(ns.Off, ns.Cap), c.iadd(os.Off, os.Cap)), c.ile(os.Off, ns.Off))
			case li.appended[o] && !li.resliced[o]:
				// only ever appended to: same object with the same window start and a length that did not shrink, or fresh
				same := Eq(ns.Ref, os.Ref)
				facts = append(facts, Or(And(same, Eq(ns.Off, os.Off), Eq(ns.Cap, os.Cap), c.ile(os.Len, ns.Len)),
					app(SBool, "<", pre.alloc, ns.Ref)), c.ile(os.Len, ns.Len))
			case li.appended[o] || li.resliced[o]:
				// same object (then same end of capacity) or a fresh one
				same := Eq(ns.Ref, os.Ref)
				facts = append(facts, Or(And(same, Eq(c.iadd(ns.Off, ns.Cap), c.iadd(os.Off, os.Cap)), c.ile(os.Off, ns.Off)),
					app(SBool, "<", pre.alloc, ns.Ref)))
			}
			nv = ns
		}
		st.vars[o] = nv
	}
	// ghost variables written by callees (all of them when the footprint of some call is unknown)
	for k, old := range pre.ghosts {
		if !strings.HasPrefix(k, "gv:") {
			continue
		}
		if li.heapFams["*"] || li.ghosts[strings.TrimPrefix(k, "gv:")] {
			if s, ok := old.(Scalar); ok {
				st.ghosts[k] = c.fresh(s.Ty, "ghost_"+strings.TrimPrefix(k, "gv:"), &facts)
			}
		}
	}
	for g := range li.ghosts {
		if _, ok := pre.ghosts["gv:"+g]; !ok {
			if gd := c.ghostVarDecl(g); gd != nil {
				st.ghosts["gv:"+g] = c.fresh(c.resolveTypeText(gd.Type), "ghost_"+g, &facts)
			}
		}
	}
	// heap
	all := li.heapFams["*"]
	fams := map[string]bool{}
	if all {
		for f := range c.heapInit {
			fams[f] = true
		}
		for f := range pre.heaps {
			fams[f] = true
		}
	} else {
		for f := range li.heapFams {
			fams[f] = true
		}
	}
	keys := make([]string, 0, len(fams))
	for f := range fams {
		keys = append(keys, f)
	}
	sort.Strings(keys)
	for _, f := range keys {
		leaf, ok := c.heapLeaf[f]
		if !ok {
			continue // family never materialised: nothing known about it anyway
		}
		if len(leaf) > 0 && leaf[0] == 0 {
			// map families
			rowSort := leaf[len("\x00map:"):]
			st.heaps[f] = c.declare("H_"+f, arraySort(SInt, rowSort))
			continue
		}
		nh := c.declare("H_"+f, c.famSort(leaf))
		c.rangeAxiomHeap(nh, f)
		st.heaps[f] = nh
		if all || li.rootsUnk[f] {
			continue
		}
		// frame: objects that existed before the loop and are not reachable through the written roots keep their rows
		oldh := c.heapGet(pre, f, leaf)
		ok = true
		var excl []Term
		r := Term{c.sym("r"), SInt}
		for _, o := range li.rootVars[f] {
			v, have := pre.vars[o]
			if !have {
				continue // declared inside the loop: its object is either fresh or one of the others... be conservative
			}
			if li.modVars[o] && !(li.resliced[o] || li.appended[o]) {
				ok = false
				break
			}
			switch x := v.(type) {
			case Slice:
				excl = append(excl, Not(Eq(r, x.Ref)))
			case Ptr:
				excl = append(excl, Not(Eq(r, x.Ref)))
			case ArrayV:
				excl = append(excl, Not(Eq(r, x.Ref)))
			default:
				ok = false
			}
		}
		for _, o := range li.rootVars[f] {
			if _, have := pre.vars[o]; !have {
				ok = false
			}
		}
		if !ok {
			continue
		}
		cond := And(append([]Term{app(SBool, "<=", r, pre.alloc)}, excl...)...)
		c.qfact(st, Term{fmt.Sprintf("(forall ((%s Int)) (! (=> %s (= (select %s %s) (select %s %s))) :pattern ((select %s %s))))",
			r.S, cond.S, nh.S, r.S, oldh.S, r.S, nh.S, r.S), SBool})
	}
	st.assume(c, And(facts...))
	return st
}

func (c *Ctx) rangeAxiomHeap(h Term, fam string) {
	if c.mode != ModeInt || !c.famHasRange[fam] {
		return
	}
	c.raw(fmt.Sprintf("(assert (forall ((r Int) (i Int)) (! (and (<= %s (select (select %s r) i)) (<= (select (select %s r) i) %s)) :pattern ((select (select %s r) i)))))",
		c.famRange[fam], h.S, h.S, c.famRangeHi[fam], h.S))
}

func (c *Ctx) loopSpec(ord int) *LoopSpec {
	if c.inlineDepth > 0 && c.fc != nil && c.fr.key != "" {
		if v, ok := c.fc.Opts[fmt.Sprintf("inline-loop:%s.%d", c.fr.key, ord)]; ok {
			var k int
			if _, err := fmt.Sscanf(v, "unroll %d", &k); err == nil {
				return &LoopSpec{Unroll: k}
			}
		}
	}
	if c.fr.fc == nil {
		return nil
	}
	return c.fr.fc.Loops[ord]
}

// invariantTerms evaluates the invariants of a loop in state st (scope position pos).
func (c *Ctx) invariantTerms(st *State, ls *LoopSpec, pos token.Pos, auto []Term) ([]Term, []*Clause, []Term) {
	var ts []Term
	var cls []*Clause
	var facts []Term
	for _, a := range auto {
		ts = append(ts, a)
		cls = append(cls, &Clause{Label: "auto", Text: "automatic range-loop invariant"})
	}
	if ls != nil {
		for _, inv := range ls.Invariants {
			if inv.Thorough && c.tier != "thorough" {
				continue
			}
			env := c.newEnv(st, c.entry)
			env.scopePos = pos
			c.bindGhostEnv(env)
			t := env.boolTerm(inv.Expr)
			facts = append(facts, env.facts...)
			ts = append(ts, t)
			cls = append(cls, inv)
		}
	}
	return ts, cls, facts
}

func (c *Ctx) bindGhostEnv(env *SpecEnv) {}

type loopParts struct {
	node     ast.Node
	pos      token.Pos
	bodyPos  token.Pos
	cond     func(st *State) Term                 // loop guard evaluated in st (may add obligations)
	pre      func(st *State)                      // executed at the start of each iteration (range bindings)
	body     []ast.Stmt
	post     func(st *State)                      // post statement
	auto     func(st *State) []Term               // automatic invariants
	analysed []ast.Node
	label    string
	extraMod []types.Object
}

func (c *Ctx) execLoop(st *State, lp loopParts) outcome {
	// loop ordinals are static: the position of the loop statement in the function's source order
	ord, okOrd := c.fr.loopIdx[lp.node]
	if !okOrd {
		ord = c.fr.loopOrd + 1000
		c.fr.loopOrd++
	}
	ls := c.loopSpec(ord)
	if ls != nil && ls.Unroll > 0 {
		return c.unrollLoop(st, lp, ls, ord)
	}
	li := c.analyseLoop(lp.analysed...)
	if lp.extraMod != nil {
		for _, o := range lp.extraMod {
			li.modVars[o] = true
		}
	}
	// 1. invariants hold on entry
	var auto []Term
	if lp.auto != nil {
		auto = lp.auto(st)
	}
	c.goalMode++
	invs, cls, facts := c.invariantTerms(st, ls, lp.bodyPos, auto)
	c.goalMode--
	for i, t := range invs {
		c.oblige(st, "inv-entry", fmt.Sprintf("loop%d:%s", ord, clauseLabel(cls[i], i)), lp.pos, Implies(And(facts...), t), cls[i].Text)
	}
	// 2. arbitrary iteration
	head := c.havocLoop(st, li)
	if lp.auto != nil {
		auto = lp.auto(head)
	}
	hinvs, _, hfacts := c.invariantTerms(head, ls, lp.bodyPos, auto)
	head.assume(c, And(hfacts...))
	for _, hi := range hinvs {
		head.assumeSoft(c, hi)
	}
	var decr0 Term
	var decrTy types.Type = tInt
	haveDecr := ls != nil && ls.Decreases != nil
	if haveDecr {
		env := c.newEnv(head, c.entry)
		env.scopePos = lp.bodyPos
		dv := env.eval(ls.Decreases.Expr)
		if s, ok := dv.(Scalar); ok && s.Ty != nil && isIntType(s.Ty) {
			decrTy = s.Ty
		}
		decr0 = c.name(env.idxTerm(dv), "variant")
	}
	exit := head.clone()
	guard := TTrue
	if lp.cond != nil {
		gst := head.clone()
		guard = c.nameIfBig(lp.cond(gst), "guard")
		// obligations raised while evaluating the guard were recorded against gst; adopt its pc
		head.pc = gst.pc
		head.heaps, head.alloc = gst.heaps, gst.alloc
		exit = head.clone()
	}
	iter := head.clone()
	iter.assume(c, guard)
	exit.assume(c, Not(guard))
	if lp.cond == nil {
		exit.pc = TFalse
	}
	c.cover(iter, fmt.Sprintf("loop%d-body-reachable", ord), lp.pos)
	if lp.pre != nil {
		lp.pre(iter)
	}
	c.loopDepth++
	defer func() { c.loopDepth-- }()
	var bo outcome
	if ls != nil && ls.SplitPaths {
		bo = c.execBodyPaths(iter, lp, ls, ord, haveDecr, decr0, decrTy)
	} else {
		bo = c.execBlock(iter, lp.body)
	}
	// continue targets
	cont := bo.normal
	for _, k := range []string{"", lp.label} {
		if s, ok := bo.conts[k]; ok && (k == "" || lp.label != "") {
			if cont.dead() {
				cont = s
			} else {
				cont = c.merge(cont, s)
			}
			delete(bo.conts, k)
		}
	}
	if !cont.dead() {
		if lp.post != nil {
			lp.post(cont)
		}
		if lp.auto != nil {
			auto = lp.auto(cont)
		}
		c.goalMode++
		pinvs, pcls, pfacts := c.invariantTerms(cont, ls, lp.bodyPos, auto)
		c.goalMode--
		for i, t := range pinvs {
			c.oblige(cont, "inv-preserved", fmt.Sprintf("loop%d:%s", ord, clauseLabel(pcls[i], i)), lp.pos, Implies(And(pfacts...), t), pcls[i].Text)
		}
		if haveDecr {
			env := c.newEnv(cont, c.entry)
			env.scopePos = lp.bodyPos
			d1 := env.idxTerm(env.eval(ls.Decreases.Expr))
			var goal Term
			if c.mode == ModeBV && !isSigned(decrTy) {
				goal = app(SBool, "bvult", d1, decr0)
			} else {
				goal = And(c.ile(c.idx(0), decr0), c.ilt(d1, decr0))
			}
			c.oblige(cont, "decreases", fmt.Sprintf("loop%d", ord), lp.pos, goal, ls.Decreases.Text)
		}
	}
	// 3. after the loop: guard false, or break
	out := outcome{normal: exit}
	for _, k := range []string{"", lp.label} {
		if s, ok := bo.breaks[k]; ok && (k == "" || lp.label != "") {
			if out.normal.dead() {
				out.normal = s
			} else {
				out.normal = c.merge(out.normal, s)
			}
			delete(bo.breaks, k)
		}
	}
	for k, v := range bo.breaks {
		c.addJump(&out.breaks, k, v)
	}
	for k, v := range bo.conts {
		c.addJump(&out.conts, k, v)
	}
	return out
}

func clauseLabel(cl *Clause, i int) string {
	if cl.Label != "" {
		return cl.Label
	}
	return fmt.Sprintf("inv%d", i+1)
}

// unrollLoop unrolls a loop K times and asserts that no further iteration is possible (complete when discharged).
func (c *Ctx) unrollLoop(st *State, lp loopParts, ls *LoopSpec, ord int) outcome {
	out := outcome{}
	cur := st
	var exits *State
	addExit := func(s *State) {
		if s.dead() {
			return
		}
		if exits == nil {
			exits = s
		} else {
			exits = c.merge(exits, s)
		}
	}
	for k := 0; k <= ls.Unroll; k++ {
		if cur.dead() {
			break
		}
		guard := TTrue
		if lp.cond != nil {
			guard = c.nameIfBig(lp.cond(cur), "guard")
		}
		if k == ls.Unroll {
			c.oblige(cur, "unwind", fmt.Sprintf("loop%d:%d", ord, ls.Unroll), lp.pos, Not(guard), "loop needs no more than the unrolled iterations")
			ex := cur.clone()
			ex.assume(c, Not(guard))
			addExit(ex)
			break
		}
		ex := cur.clone()
		ex.assume(c, Not(guard))
		if lp.cond == nil {
			ex.pc = TFalse
		}
		addExit(ex)
		iter := cur
		iter.assume(c, guard)
		if lp.pre != nil {
			lp.pre(iter)
		}
		bo := c.execBlock(iter, lp.body)
		cont := bo.normal
		for _, key := range []string{"", lp.label} {
			if s, ok := bo.conts[key]; ok && (key == "" || lp.label != "") {
				if cont.dead() {
					cont = s
				} else {
					cont = c.merge(cont, s)
				}
				delete(bo.conts, key)
			}
			if s, ok := bo.breaks[key]; ok && (key == "" || lp.label != "") {
				addExit(s)
				delete(bo.breaks, key)
			}
		}
		for key, v := range bo.breaks {
			c.addJump(&out.breaks, key, v)
		}
		for key, v := range bo.conts {
			c.addJump(&out.conts, key, v)
		}
		if !cont.dead() && lp.post != nil {
			lp.post(cont)
		}
		cur = cont
	}
	out.normal = exits
	return out
}

func (c *Ctx) execFor(st *State, x *ast.ForStmt, label string) outcome {
	if x.Init != nil {
		st = c.exec(st, x.Init, "").normal
		if st.dead() {
			return outcome{}
		}
	}
	lp := loopParts{node: x, pos: x.Pos(), bodyPos: x.Body.Lbrace + 1, body: x.Body.List, label: label, analysed: []ast.Node{x.Body, x.Post}}
	if x.Cond != nil {
		lp.cond = func(s *State) Term { return c.asScalar(c.eval(s, x.Cond), tBool).T }
	}
	if x.Post != nil {
		lp.post = func(s *State) { c.exec(s, x.Post, "") }
	}
	if iv, sv, ok := c.countingLoop(x); ok {
		// `for i := 0; i < len(s); i++` with neither i nor s assigned in the body: 0 <= i <= len(s) holds at the loop
		// head without having to be written down (the same bounds a range loop gets automatically)
		lp.auto = func(s *State) []Term {
			iv2, ok1 := s.vars[iv].(Scalar)
			sl, ok2 := s.vars[sv].(Slice)
			if !ok1 || !ok2 {
				return nil
			}
			return []Term{c.ile(c.idx(0), iv2.T), c.ile(iv2.T, sl.Len)}
		}
	}
	return c.execLoop(st, lp)
}

// countingLoop recognises `for i := 0; i < len(s); i++ { body }` where s is a slice-typed local or parameter and the
// body assigns neither i nor s.
func (c *Ctx) countingLoop(x *ast.ForStmt) (types.Object, types.Object, bool) {
	if c.mode != ModeInt {
		return nil, nil, false
	}
	init, ok := x.Init.(*ast.AssignStmt)
	if !ok || init.Tok != token.DEFINE || len(init.Lhs) != 1 || len(init.Rhs) != 1 {
		return nil, nil, false
	}
	iid, ok := init.Lhs[0].(*ast.Ident)
	lit, ok2 := init.Rhs[0].(*ast.BasicLit)
	if !ok || !ok2 || lit.Value != "0" {
		return nil, nil, false
	}
	cond, ok := x.Cond.(*ast.BinaryExpr)
	if !ok || cond.Op != token.LSS {
		return nil, nil, false
	}
	cid, ok := ast.Unparen(cond.X).(*ast.Ident)
	call, ok2 := ast.Unparen(cond.Y).(*ast.CallExpr)
	if !ok || !ok2 || cid.Name != iid.Name || len(call.Args) != 1 {
		return nil, nil, false
	}
	fn, ok := call.Fun.(*ast.Ident)
	sid, ok2 := ast.Unparen(call.Args[0]).(*ast.Ident)
	if !ok || !ok2 || fn.Name != "len" {
		return nil, nil, false
	}
	if _, isB := c.pkg.info.ObjectOf(fn).(*types.Builtin); !isB {
		return nil, nil, false
	}
	post, ok := x.Post.(*ast.IncDecStmt)
	if !ok || post.Tok != token.INC {
		return nil, nil, false
	}
	pid, ok := ast.Unparen(post.X).(*ast.Ident)
	if !ok || pid.Name != iid.Name {
		return nil, nil, false
	}
	iobj, sobj := c.pkg.info.ObjectOf(iid), c.pkg.info.ObjectOf(sid)
	if iobj == nil || sobj == nil || c.pkg.info.ObjectOf(cid) != iobj || c.pkg.info.ObjectOf(pid) != iobj {
		return nil, nil, false
	}
	if _, isSl := sobj.Type().Underlying().(*types.Slice); !isSl {
		return nil, nil, false
	}
	li := c.analyseLoop(x.Body)
	if li.modVars[iobj] || li.modVars[sobj] || c.boxedVars[iobj] || c.boxedVars[sobj] {
		return nil, nil, false
	}
	return iobj, sobj, true
}

func (c *Ctx) execRange(st *State, x *ast.RangeStmt, label string) outcome {
	xt := c.typeOf(x.X)
	// hidden index variable
	hid := types.NewVar(x.Pos(), c.pkg.types, "range_i", tInt)
	var n Term
	var elemAt func(s *State, i Term) Val
	var elemT types.Type
	isMapRange := false
	var mapT *types.Map
	switch u := xt.Underlying().(type) {
	case *types.Slice:
		sl := c.evalSlice(st, x.X)
		n = sl.Len
		elemT = u.Elem()
		elemAt = func(s *State, i Term) Val { return c.load(s, c.elemPrefix(u.Elem()), u.Elem(), sl.Ref, c.iadd(sl.Off, i)) }
	case *types.Array:
		av := c.evalArray(st, x.X)
		n = c.idx(u.Len())
		elemT = u.Elem()
		if x.Value != nil {
			av = c.copyArray(st, av) // range over an array value iterates over a copy
		}
		elemAt = func(s *State, i Term) Val { return c.load(s, c.elemPrefix(u.Elem()), u.Elem(), av.Ref, i) }
	case *types.Basic:
		if isIntType(xt) {
			n = c.evalIndexTerm(st, x.X)
			break
		}
		unsupp("range over %s at %s", xt, c.posStr(x.Pos()))
	case *types.Pointer:
		at, ok := u.Elem().Underlying().(*types.Array)
		if !ok {
			unsupp("range over %s", xt)
		}
		p := c.evalPtr(st, x.X)
		n = c.idx(at.Len())
		elemT = at.Elem()
		elemAt = func(s *State, i Term) Val { return c.load(s, c.elemPrefix(at.Elem()), at.Elem(), p.Ref, i) }
	case *types.Map:
		// range over a map: an unknown number of iterations, each with an arbitrary key and an arbitrary element (the
		// iteration order and - for non-scalar elements - the contents of maps are not modelled)
		c.eval(st, x.X)
		c.trusted["range over a map: arbitrary number of iterations with arbitrary keys and elements"] = true
		n = c.declare("maprange", c.idxSort())
		st.assume(c, c.ile(c.idx(0), n))
		isMapRange = true
		mapT = u
	default:
		unsupp("range over %s at %s", xt, c.posStr(x.Pos()))
	}
	n = c.name(n, "rangeN")
	st.vars[hid] = Scalar{c.idx(0), tInt}
	var keyObj, valObj types.Object
	if id, ok := x.Key.(*ast.Ident); ok && id.Name != "_" {
		if x.Tok == token.DEFINE {
			keyObj = c.pkg.info.Defs[id]
		} else {
			keyObj = c.pkg.info.ObjectOf(id)
		}
	}
	if id, ok := x.Value.(*ast.Ident); ok && id.Name != "_" {
		if x.Tok == token.DEFINE {
			valObj = c.pkg.info.Defs[id]
		} else {
			valObj = c.pkg.info.ObjectOf(id)
		}
	}
	if x.Tok == token.DEFINE {
		if keyObj != nil {
			st.vars[keyObj] = c.zero(keyObj.Type())
		}
		if valObj != nil {
			st.vars[valObj] = c.zeroOrOpaque(valObj.Type())
		}
	}
	hidT := func(s *State) Term { return s.vars[hid].(Scalar).T }
	lp := loopParts{node: x, pos: x.Pos(), bodyPos: x.Body.Lbrace + 1, body: x.Body.List, label: label, analysed: []ast.Node{x.Body},
		extraMod: []types.Object{hid}}
	if keyObj != nil {
		lp.extraMod = append(lp.extraMod, keyObj)
	}
	if valObj != nil {
		lp.extraMod = append(lp.extraMod, valObj)
	}
	lp.cond = func(s *State) Term { return c.ilt(hidT(s), n) }
	lp.auto = func(s *State) []Term { return []Term{And(c.ile(c.idx(0), hidT(s)), c.ile(hidT(s), n))} }
	arbitrary := func(s *State, t types.Type, name string) Val {
		if !validType(t) || c.opaqueType(t) {
			return Opaque{t}
		}
		var facts []Term
		v := c.fresh(t, name, &facts)
		c.refsBounded(v, s.alloc, &facts)
		s.assume(c, And(facts...))
		return v
	}
	lp.pre = func(s *State) {
		i := hidT(s)
		if isMapRange {
			if keyObj != nil {
				s.vars[keyObj] = arbitrary(s, mapT.Key(), "mapkey")
			}
			if valObj != nil {
				s.vars[valObj] = arbitrary(s, mapT.Elem(), "mapelem")
			}
			return
		}
		if keyObj != nil {
			kt := keyObj.Type()
			s.vars[keyObj] = Scalar{c.convertIdxTo(i, kt), kt}
		}
		if valObj != nil && elemAt != nil {
			_ = elemT
			s.vars[valObj] = elemAt(s, i)
		}
	}
	lp.post = func(s *State) {
		s.vars[hid] = Scalar{c.name(c.iadd(hidT(s), c.idx(1)), "ri"), tInt}
	}
	out := c.execLoop(st, lp)
	return out
}

func (c *Ctx) convertIdxTo(i Term, t types.Type) Term {
	if c.mode == ModeBV {
		return c.convertInt(i, tInt, t)
	}
	return i
}


// numberLoops assigns every for / range statement of a function body its ordinal in source order.
func numberLoops(body ast.Node) map[ast.Node]int {
	m := map[ast.Node]int{}
	if body == nil {
		return m
	}
	n := 0
	ast.Inspect(body, func(nd ast.Node) bool {
		switch nd.(type) {
		case *ast.ForStmt, *ast.RangeStmt:
			m[nd] = n
			n++
		}
		return true
	})
	return m
}
