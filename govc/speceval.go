package main

import (
	"go/ast"
	"fmt"
	"go/token"
	"go/types"
	"math/big"
	"strings"
)

// SpecEnv evaluates spec expressions symbolically.
type SpecEnv struct {
	c        *Ctx
	cur, old *State
	vars     map[string]Val
	factSeen map[string]bool
	scopePos token.Pos // position used to resolve Go locals (loop invariants)
	pkg      *Pkg      // package whose contract file the expression comes from
	facts    []Term    // typing facts of values read (true by construction)
	qdepth   int
	depth    int
	now      *State // inside old(...): the state of the enclosing clause (locals that do not exist at entry keep their current value)
}

type NilV struct{}

func (c *Ctx) newEnv(cur, old *State) *SpecEnv {
	return &SpecEnv{c: c, cur: cur, old: old, vars: map[string]Val{}, pkg: c.pkg}
}

func (e *SpecEnv) sub() *SpecEnv {
	n := *e
	n.vars = make(map[string]Val, len(e.vars))
	for k, v := range e.vars {
		n.vars[k] = v
	}
	return &n
}

var specDummy = &State{pc: TFalse}

func (e *SpecEnv) fail(f string, a ...interface{}) {
	panic(unsupported{"spec: " + fmt.Sprintf(f, a...)})
}

func (e *SpecEnv) boolTerm(x SExpr) Term {
	v := e.eval(x)
	s, ok := v.(Scalar)
	if !ok || s.T.Sort != SBool {
		e.fail("boolean expected in %s", sexprString(x))
	}
	return s.T
}

var tInt = types.Typ[types.Int]
var tBool = types.Typ[types.Bool]

func (e *SpecEnv) eval(x SExpr) Val {
	c := e.c
	switch n := x.(type) {
	case *SLit:
		switch {
		case n.Int != nil:
			return Const{n.Int}
		case n.Bool != nil:
			if *n.Bool {
				return Scalar{TTrue, tBool}
			}
			return Scalar{TFalse, tBool}
		case n.Str != nil:
			return Scalar{c.strLit(*n.Str), types.Typ[types.String]}
		}
	case *SIdent:
		return e.ident(n.Name)
	case *SUn:
		v := e.eval(n.X)
		switch n.Op {
		case "!":
			return Scalar{Not(e.asBool(v)), tBool}
		case "-":
			if k, ok := v.(Const); ok {
				return Const{new(big.Int).Neg(k.V)}
			}
			s := v.(Scalar)
			if c.mode == ModeBV {
				return Scalar{app(s.T.Sort, "bvneg", s.T), s.Ty}
			}
			return Scalar{app(SInt, "-", s.T), s.Ty}
		case "^":
			if k, ok := v.(Const); ok {
				return Const{new(big.Int).Not(k.V)}
			}
			s := v.(Scalar)
			if c.mode == ModeBV {
				return Scalar{app(s.T.Sort, "bvnot", s.T), s.Ty}
			}
			lo, hi, _ := typeRange(s.Ty)
			if lo.Sign() == 0 {
				return Scalar{app(SInt, "-", IntLit(SInt, hi), s.T), s.Ty}
			}
			return Scalar{app(SInt, "-", app(SInt, "-", s.T), Term{"1", SInt}), s.Ty}
		case "+":
			return v
		}
	case *SBin:
		return e.binary(n)
	case *SCall:
		return e.call(n)
	case *SIndex:
		return e.index(e.eval(n.X), e.eval(n.I))
	case *SSlice:
		return e.slice(n)
	case *SSel:
		return e.selector(n)
	case *SQuant:
		return e.quant(n)
	}
	e.fail("unsupported spec expression %T", x)
	return nil
}

func (e *SpecEnv) asBool(v Val) Term {
	s, ok := v.(Scalar)
	if !ok || s.T.Sort != SBool {
		e.fail("boolean expected")
	}
	return s.T
}

func (e *SpecEnv) ident(name string) Val {
	c := e.c
	if v, ok := e.vars[name]; ok {
		return v
	}
	if name == "nil" {
		return NilV{}
	}
	if g := c.ghostVarDecl(name); g != nil {
		return c.ghostVar(e.cur, g)
	}
	if name == "range_i" {
		// hidden index of the innermost enclosing range loop
		var best types.Object
		for o := range e.cur.vars {
			if o.Name() == "range_i" && (!e.scopePos.IsValid() || o.Pos() < e.scopePos) && (best == nil || o.Pos() > best.Pos()) {
				best = o
			}
		}
		// inside "for i := 0; i < len(s); i++" (the index-loop spelling of "for i := range s") range_i is that loop's
		// counter, so a contract survives the change of spelling in either direction; the innermost enclosing loop wins
		if c.fdecl != nil && e.scopePos.IsValid() {
			var hit types.Object
			var hitPos token.Pos
			ast.Inspect(c.fdecl, func(nd ast.Node) bool {
				if fs, ok := nd.(*ast.ForStmt); ok && fs.Pos() <= e.scopePos && e.scopePos <= fs.End() {
					if io, _, isCount := c.countingLoop(fs); isCount {
						hit, hitPos = io, fs.Pos() // Inspect visits outer loops first
					}
				}
				return true
			})
			if hit != nil && (best == nil || hitPos > best.Pos()) {
				if v, ok := e.cur.vars[hit]; ok {
					return v
				}
			}
		}
		if best != nil {
			return e.cur.vars[best]
		}
	}
	// Go local / parameter visible at scopePos
	if e.scopePos.IsValid() && c.pkg.types != nil {
		if sc := c.pkg.types.Scope().Innermost(e.scopePos); sc != nil {
			if _, obj := sc.LookupParent(name, e.scopePos); obj != nil {
				switch o := obj.(type) {
				case *types.Var:
					if v, ok := e.cur.vars[o]; ok {
						if bx, isBox := v.(boxed); isBox {
							return c.load(e.loadState(), c.elemPrefix(o.Type()), o.Type(), bx.Ref, c.idx(0))
						}
						return v
					}
					if e.now != nil {
						// old(... i ...) with i a local declared after entry (a loop variable): old() switches the heap
						// (and parameters) to their entry values; such a local has no entry value and keeps its current one
						if v, ok := e.now.vars[o]; ok {
							if _, isBox := v.(boxed); !isBox {
								return v
							}
						}
					}
					if o.Parent() == c.pkg.types.Scope() {
						return c.globalVar(e.cur, o)
					}
				case *types.Const:
					return c.constVal(o.Val(), o.Type(), token.NoPos)
				}
			}
		}
	}
	// package-level constants / variables of the contract's package
	pk := e.pkg
	if pk != nil && pk.types != nil {
		if obj := pk.types.Scope().Lookup(name); obj != nil {
			switch o := obj.(type) {
			case *types.Const:
				return c.constVal(o.Val(), o.Type(), token.NoPos)
			case *types.Var:
				return c.globalVar(e.cur, o)
			}
		}
	}
	switch name {
	case "MaxInt64":
		return Const{new(big.Int).Sub(pow2(63), big.NewInt(1))}
	case "MinInt64":
		return Const{new(big.Int).Neg(pow2(63))}
	case "MaxUint64":
		return Const{new(big.Int).Sub(pow2(64), big.NewInt(1))}
	case "MaxUint32":
		return Const{new(big.Int).Sub(pow2(32), big.NewInt(1))}
	case "MaxInt32":
		return Const{new(big.Int).Sub(pow2(31), big.NewInt(1))}
	}
	e.fail("unknown identifier %q", name)
	return nil
}

// loadState returns a scratch state for loads (range facts are collected, not assumed into a real state).
func (e *SpecEnv) loadState() *State {
	return &State{vars: e.cur.vars, heaps: e.cur.heaps, alloc: e.cur.alloc, pc: TTrue, ghosts: e.cur.ghosts}
}

func (e *SpecEnv) specLoad(prefix string, t types.Type, ref, idx Term) Val {
	c := e.c
	// inside a quantifier body nothing may be named (the bound variable would escape); outside, naming the loaded
	// components keeps the well-formedness facts short ("opt decl-pc" functions only: it changes term shapes)
	named := c.declBool && e.qdepth == 0 && c.noName == 0
	if !named {
		c.noName++
	}
	ls := e.loadState()
	v := c.load(ls, prefix, t, ref, idx)
	if !named {
		c.noName--
	}
	if e.qdepth == 0 && ls.pc.S != "true" {
		// the same load is evaluated many times in one clause: keep each well-formedness fact once
		if e.factSeen == nil {
			e.factSeen = map[string]bool{}
		}
		if !e.factSeen[ls.pc.S] {
			e.factSeen[ls.pc.S] = true
			e.facts = append(e.facts, ls.pc)
		}
	}
	return v
}

func (e *SpecEnv) toSeq(v Val) Seq {
	c := e.c
	switch s := v.(type) {
	case Seq:
		return s
	case Slice:
		srt := c.scalarSort(s.Elem)
		if srt == "" {
			e.fail("sequence view needs scalar elements, got %s", s.Elem)
		}
		if vt, isView := c.views[s.Ref.S]; isView {
			// raw bytes of an integer variable: an uninterpreted function of its current value
			cur := c.asScalar(c.load(e.cur, c.elemPrefix(vt), vt, s.Ref, c.idx(0)), vt)
			fn := "unsafe.bytes." + smtIdent(typeKey(vt))
			c.declareUF(fn, []string{cur.T.Sort}, arraySort(c.idxSort(), srt))
			return Seq{app(arraySort(c.idxSort(), srt), fn, cur.T), s.Off, s.Len, s.Elem}
		}
		h := c.heapGet(e.cur, c.elemPrefix(s.Elem), srt)
		return Seq{Select(h, s.Ref), s.Off, s.Len, s.Elem}
	case ArrayV:
		srt := c.scalarSort(s.Elem)
		h := c.heapGet(e.cur, c.elemPrefix(s.Elem), srt)
		return Seq{Select(h, s.Ref), c.idx(0), c.idx(s.N), s.Elem}
	case NilV:
		e.fail("nil has no sequence view without a type")
	}
	e.fail("sequence expected, got %T", v)
	return Seq{}
}

func (e *SpecEnv) idxTerm(v Val) Term {
	c := e.c
	switch s := v.(type) {
	case Const:
		return IntLit(c.idxSort(), s.V)
	case Scalar:
		if c.mode == ModeBV {
			w := bvWidth(s.T.Sort)
			if w < 64 {
				if isSigned(s.Ty) {
					return Term{fmt.Sprintf("((_ sign_extend %d) %s)", 64-w, s.T.S), bvSort(64)}
				}
				return Term{fmt.Sprintf("((_ zero_extend %d) %s)", 64-w, s.T.S), bvSort(64)}
			}
		}
		return s.T
	}
	e.fail("index expected, got %T", v)
	return Term{}
}

func (e *SpecEnv) index(b, iv Val) Val {
	c := e.c
	switch s := b.(type) {
	case Slice:
		i := e.idxTerm(iv)
		return e.specLoad(c.elemPrefix(s.Elem), s.Elem, s.Ref, c.iadd(s.Off, i))
	case Seq:
		i := e.idxTerm(iv)
		el := Select(s.Arr, c.iadd(s.Off, i))
		c.noteUnsigned(el, s.Elem)
		return Scalar{el, s.Elem}
	case ArrayV:
		i := e.idxTerm(iv)
		return e.specLoad(c.elemPrefix(s.Elem), s.Elem, s.Ref, i)
	case Scalar:
		if s.T.Sort == SStr {
			bs := SInt
			if c.mode == ModeBV {
				bs = bvSort(8)
			}
			return Scalar{app(bs, "str.at", s.T, e.idxTerm(iv)), types.Typ[types.Uint8]}
		}
		if mt, isMap := s.Ty.Underlying().(*types.Map); isMap {
			// m[k] in a clause: Go's value of the index expression (zero value when k is absent or m is nil)
			if kc, isC := iv.(Const); isC {
				iv = c.asScalar(kc, mt.Key())
			}
			if ks, ok := iv.(Scalar); ok {
				return c.mapLoad(e.cur, Place{isMap: true, mapRef: s.T, mapKey: ks, mapTy: mt, ty: mt.Elem(), prefix: c.mapPrefix(mt)})
			}
		}
	}
	e.fail("cannot index %T", b)
	return nil
}

func (e *SpecEnv) slice(n *SSlice) Val {
	c := e.c
	b := e.eval(n.X)
	if s, ok := b.(Scalar); ok && s.T.Sort == SStr {
		e.fail("substring in spec not supported")
	}
	sq := e.toSeq(b)
	lo := c.idx(0)
	hi := sq.Len
	if n.Lo != nil {
		lo = e.idxTerm(e.eval(n.Lo))
	}
	if n.Hi != nil {
		hi = e.idxTerm(e.eval(n.Hi))
	}
	return Seq{sq.Arr, c.iadd(sq.Off, lo), c.isub(hi, lo), sq.Elem}
}

func (e *SpecEnv) selector(n *SSel) Val {
	c := e.c
	// qualified constants like math.MaxInt64
	if id, ok := n.X.(*SIdent); ok {
		if _, bound := e.vars[id.Name]; !bound && e.pkg != nil && e.pkg.types != nil {
			aliasPath := ""
			for _, f := range e.pkg.files {
				for _, is := range f.Imports {
					if is.Name != nil && is.Name.Name == id.Name {
						aliasPath = strings.Trim(is.Path.Value, `"`)
					}
				}
			}
			for _, imp := range e.pkg.types.Imports() {
				if imp.Name() == id.Name || (aliasPath != "" && imp.Path() == aliasPath) {
					if o := imp.Scope().Lookup(n.Name); o != nil {
						if k, ok := o.(*types.Const); ok {
							return c.constVal(k.Val(), k.Type(), token.NoPos)
						}
					}
				}
			}
		}
	}
	b := e.eval(n.X)
	return e.fieldOf(b, n.Name)
}

// ghostOwner returns the named type whose contract declares ghost fields for values of type t
// (an interface type, or the constraint interface of a type parameter).
func (c *Ctx) ghostOwner(t types.Type) (*types.Named, *TypeDecl) {
	if t == nil {
		return nil, nil
	}
	if tp, ok := t.(*types.TypeParam); ok {
		t = tp.Constraint()
	}
	t = types.Unalias(t) // os.FileInfo = fs.FileInfo
	if n, ok := t.(*types.Named); ok {
		if td := c.typeDecl(n); td != nil {
			return n, td
		}
	}
	return nil, nil
}

func (e *SpecEnv) fieldOf(b Val, name string) Val {
	c := e.c
	if sc, ok := b.(Scalar); ok {
		// ghost field of an interface-typed (reference-like) value
		if n, td := c.ghostOwner(sc.Ty); td != nil {
			if td.Impl != "" {
				// interface known to hold pointers to one concrete struct type
				if ipk := c.prog.byPath[n.Obj().Pkg().Path()]; ipk != nil && ipk.types != nil {
					if tn, ok := ipk.types.Scope().Lookup(td.Impl).(*types.TypeName); ok {
						return e.fieldOf(Ptr{sc.T, c.idx(0), tn.Type()}, name)
					}
				}
			}
			for _, g := range td.Ghost {
				if g.Name == name {
					return e.specLoad(c.elemPrefix(n)+"."+name, c.resolveTypeText(g.Type), sc.T, c.idx(0))
				}
			}
		}
	}
	switch s := b.(type) {
	case Struct:
		st := s.Ty.Underlying().(*types.Struct)
		for i := 0; i < st.NumFields(); i++ {
			if st.Field(i).Name() == name {
				return s.F[i]
			}
		}
		// promoted through embedded structs
		for i := 0; i < st.NumFields(); i++ {
			if st.Field(i).Embedded() {
				if _, isOp := s.F[i].(Opaque); isOp {
					continue
				}
				if v := e.tryField(s.F[i], name); v != nil {
					return v
				}
			}
		}
	case Ptr:
		stt, ok := s.Elem.Underlying().(*types.Struct)
		if !ok {
			e.fail("field %s of pointer to non-struct", name)
		}
		prefix := c.ptrPrefix(s)
		for i := 0; i < stt.NumFields(); i++ {
			f := stt.Field(i)
			if f.Name() == name {
				if c.opaqueType(f.Type()) {
					return Opaque{f.Type()}
				}
				return e.specLoad(prefix+"."+name, f.Type(), s.Ref, s.Idx)
			}
		}
		// ghost fields
		if nt, ok := s.Elem.(*types.Named); ok {
			if td := c.typeDecl(nt); td != nil {
				for _, g := range td.Ghost {
					if g.Name == name {
						return e.specLoad(prefix+"."+name, c.resolveTypeText(g.Type), s.Ref, s.Idx)
					}
				}
			}
		}
		// embedded
		for i := 0; i < stt.NumFields(); i++ {
			f := stt.Field(i)
			if f.Embedded() && !c.opaqueType(f.Type()) {
				inner := e.specLoad(prefix+"."+f.Name(), f.Type(), s.Ref, s.Idx)
				if v := e.tryField(inner, name); v != nil {
					return v
				}
			}
		}
	}
	e.fail("no field %s in %T", name, b)
	return nil
}

func (e *SpecEnv) tryField(b Val, name string) (v Val) {
	defer func() {
		if r := recover(); r != nil {
			if _, ok := r.(unsupported); ok {
				v = nil
				return
			}
			panic(r)
		}
	}()
	return e.fieldOf(b, name)
}

func (e *SpecEnv) quant(n *SQuant) Val {
	c := e.c
	sub := e.sub()
	sub.qdepth++
	var binders []string
	for _, p := range n.Vars {
		t := c.resolveTypeText(p.Type)
		srt := c.scalarSort(t)
		if srt == "" {
			if pt, ok := t.Underlying().(*types.Pointer); ok {
				r := c.sym(p.Name + "#ref")
				binders = append(binders, fmt.Sprintf("(%s Int)", r))
				sub.vars[p.Name] = Ptr{Term{r, SInt}, c.idx(0), pt.Elem()}
				continue
			}
			e.fail("quantified variable of type %s", p.Type)
		}
		s := c.sym(p.Name)
		binders = append(binders, fmt.Sprintf("(%s %s)", s, srt))
		sub.vars[p.Name] = Scalar{Term{s, srt}, t}
	}
	c.noName++
	body := sub.boolTerm(n.Body)
	// in int mode quantified integers range over their Go type
	var guards []Term
	if c.mode == ModeInt {
		for _, p := range n.Vars {
			t := c.resolveTypeText(p.Type)
			if v, ok := sub.vars[p.Name].(Scalar); ok && v.T.Sort == SInt {
				if _, _, isInt := typeRange(t); isInt {
					guards = append(guards, c.inRange(v.T, t))
				}
			}
		}
	}
	c.noName--
	q := "forall"
	if !n.Forall {
		q = "exists"
		body = And(append(guards, body)...)
	} else {
		body = Implies(And(guards...), body)
	}
	var bound []string
	for _, b := range binders {
		f := strings.Fields(strings.TrimPrefix(b, "("))
		bound = append(bound, f[0])
	}
	if len(bound) == 1 && c.mode == ModeInt && strings.HasSuffix(binders[0], " Int)") && n.Forall && c.goalMode == 0 {
		// also state the equivalent formula re-indexed by the absolute row index (robust triggers); the two
		// quantifiers are equivalent, so their conjunction has the same truth value in every position
		if rb := reindexQuant(body.S, bound[0]); rb != body.S {
			mk := func(b string, v string) string {
				nb := strings.ReplaceAll(b, bound[0], v)
				binder := "(" + v + " Int)"
				if pats := c.choosePatterns(nb, []string{v}); pats != "" {
					return fmt.Sprintf("(forall (%s) (! %s %s))", binder, nb, pats)
				}
				return fmt.Sprintf("(forall (%s) %s)", binder, nb)
			}
			v2 := c.sym("j")
			return Scalar{And(Term{mk(body.S, bound[0]), SBool}, Term{mk(rb, v2), SBool}), tBool}
		}
	}
	if len(bound) > 1 && c.mode == ModeInt && n.Forall && c.goalMode == 0 {
		// several index variables (e.g. "sorted": forall a, b): re-index each of them by its absolute row index, as above
		allInt := true
		for _, b := range binders {
			if !strings.HasSuffix(b, " Int)") {
				allInt = false
			}
		}
		if allInt {
			rb := body.S
			ok := true
			var nv, nbind []string
			for _, v := range bound {
				r2 := reindexQuant(rb, v)
				if r2 == rb {
					ok = false
					break
				}
				v2 := c.sym("j")
				rb = replaceSymbol(r2, v, v2)
				nv = append(nv, v2)
				nbind = append(nbind, "("+v2+" Int)")
			}
			if ok {
				orig := fmt.Sprintf("(forall (%s) %s)", strings.Join(binders, " "), body.S)
				if pats := c.choosePatterns(body.S, bound); pats != "" {
					orig = fmt.Sprintf("(forall (%s) (! %s %s))", strings.Join(binders, " "), body.S, pats)
				}
				re := fmt.Sprintf("(forall (%s) %s)", strings.Join(nbind, " "), rb)
				if pats := c.choosePatterns(rb, nv); pats != "" {
					re = fmt.Sprintf("(forall (%s) (! %s %s))", strings.Join(nbind, " "), rb, pats)
				}
				return Scalar{And(Term{orig, SBool}, Term{re, SBool}), tBool}
			}
		}
	}
	if pats := c.choosePatterns(body.S, bound); pats != "" {
		return Scalar{Term{fmt.Sprintf("(%s (%s) (! %s %s))", q, strings.Join(binders, " "), body.S, pats), SBool}, tBool}
	}
	return Scalar{Term{fmt.Sprintf("(%s (%s) %s)", q, strings.Join(binders, " "), body.S), SBool}, tBool}
}

// replaceSymbol replaces whole-token occurrences of symbol a by b in an s-expression string.
func replaceSymbol(s, a, b string) string {
	var out strings.Builder
	for i := 0; i < len(s); {
		if strings.HasPrefix(s[i:], a) {
			j := i + len(a)
			prevOK := i == 0 || s[i-1] == ' ' || s[i-1] == '('
			nextOK := j >= len(s) || s[j] == ' ' || s[j] == ')'
			if prevOK && nextOK {
				out.WriteString(b)
				i = j
				continue
			}
		}
		out.WriteByte(s[i])
		i++
	}
	return out.String()
}

func (e *SpecEnv) binary(n *SBin) Val {
	c := e.c
	switch n.Op {
	case "&&":
		return Scalar{And(e.boolTerm(n.L), e.boolTerm(n.R)), tBool}
	case "||":
		return Scalar{Or(e.boolTerm(n.L), e.boolTerm(n.R)), tBool}
	case "==>":
		return Scalar{Implies(e.boolTerm(n.L), e.boolTerm(n.R)), tBool}
	case "<==>":
		return Scalar{Eq(e.boolTerm(n.L), e.boolTerm(n.R)), tBool}
	}
	a, b := e.eval(n.L), e.eval(n.R)
	switch n.Op {
	case "==", "!=":
		r := e.equal(a, b)
		if n.Op == "!=" {
			r = Not(r)
		}
		return Scalar{r, tBool}
	}
	// constant folding
	ka, aIsK := a.(Const)
	kb, bIsK := b.(Const)
	if aIsK && bIsK {
		return e.constBin(n.Op, ka.V, kb.V)
	}
	var ty types.Type
	if s, ok := a.(Scalar); ok {
		ty = s.Ty
	} else if s, ok := b.(Scalar); ok {
		ty = s.Ty
	} else {
		e.fail("operands of %s must be scalars (%T, %T)", n.Op, a, b)
	}
	isShift := n.Op == "<<" || n.Op == ">>"
	var sa, sb Scalar
	if aIsK {
		if isShift {
			ty = tInt
			if c.mode == ModeBV {
				ty = types.Typ[types.Uint64]
			}
		}
		sa = c.asScalar(ka, ty)
	} else {
		sa = a.(Scalar)
		ty = sa.Ty
	}
	if bIsK {
		bt := ty
		if isShift && c.mode == ModeBV {
			bt = ty
		}
		sb = c.asScalar(kb, bt)
	} else {
		sb = b.(Scalar)
	}
	if !isShift && sa.T.Sort != sb.T.Sort {
		e.fail("operand sort mismatch in %s: %s vs %s", sexprString(n), sa.T.Sort, sb.T.Sort)
	}
	switch n.Op {
	case "<", "<=", ">", ">=":
		op := map[string]token.Token{"<": token.LSS, "<=": token.LEQ, ">": token.GTR, ">=": token.GEQ}[n.Op]
		if sa.T.Sort == SStr {
			return Scalar{c.strCompare(op, sa.T, sb.T), tBool}
		}
		if isFloatType(ty) {
			return Scalar{c.floatCompare(op, sa.T, sb.T), tBool}
		}
		return Scalar{c.intCompare(op, sa.T, sb.T, ty), tBool}
	}
	op := map[string]token.Token{"+": token.ADD, "-": token.SUB, "*": token.MUL, "/": token.QUO, "%": token.REM, "&": token.AND, "|": token.OR,
		"^": token.XOR, "&^": token.AND_NOT, "<<": token.SHL, ">>": token.SHR}[n.Op]
	if c.mode == ModeInt {
		// mathematical integers in specifications
		switch n.Op {
		case "+":
			return Scalar{app(SInt, "+", sa.T, sb.T), ty}
		case "-":
			return Scalar{app(SInt, "-", sa.T, sb.T), ty}
		case "*":
			return Scalar{app(SInt, "*", sa.T, sb.T), ty}
		}
	}
	return Scalar{c.intBinop(specDummy, op, sa.T, sb.T, ty, sb.Ty, token.NoPos), ty}
}

func (e *SpecEnv) constBin(op string, a, b *big.Int) Val {
	r := new(big.Int)
	switch op {
	case "+":
		r.Add(a, b)
	case "-":
		r.Sub(a, b)
	case "*":
		r.Mul(a, b)
	case "/":
		r.Quo(a, b)
	case "%":
		r.Rem(a, b)
	case "<<":
		r.Lsh(a, uint(b.Int64()))
	case ">>":
		r.Rsh(a, uint(b.Int64()))
	case "&":
		r.And(a, b)
	case "|":
		r.Or(a, b)
	case "^":
		r.Xor(a, b)
	case "&^":
		r.AndNot(a, b)
	case "<":
		return boolVal(a.Cmp(b) < 0)
	case "<=":
		return boolVal(a.Cmp(b) <= 0)
	case ">":
		return boolVal(a.Cmp(b) > 0)
	case ">=":
		return boolVal(a.Cmp(b) >= 0)
	default:
		e.fail("constant op %s", op)
	}
	return Const{r}
}

func boolVal(b bool) Val {
	if b {
		return Scalar{TTrue, tBool}
	}
	return Scalar{TFalse, tBool}
}

func (e *SpecEnv) equal(a, b Val) Term {
	c := e.c
	if _, ok := a.(NilV); ok {
		a, b = b, a
	}
	if _, ok := b.(NilV); ok {
		switch s := a.(type) {
		case Slice:
			return Eq(s.Ref, Term{"0", SInt})
		case Ptr:
			return Eq(s.Ref, Term{"0", SInt})
		case Scalar:
			return Eq(s.T, IntLit64(s.T.Sort, 0))
		case NilV:
			return TTrue
		}
		e.fail("comparison of %T with nil", a)
	}
	_, aSl := a.(Slice)
	_, aSq := a.(Seq)
	_, bSl := b.(Slice)
	_, bSq := b.(Seq)
	if (aSl || aSq) && (bSl || bSq) {
		return e.seqEq(e.toSeq(a), e.toSeq(b))
	}
	return c.eqVal(a, b)
}

func (e *SpecEnv) seqEq(a, b Seq) Term {
	c := e.c
	i := c.sym("k")
	it := Term{i, c.idxSort()}
	// quantify over the absolute index into a's row so that the trigger (select a.row j) matches any read of that row
	var bj Term
	if a.Off.S == b.Off.S {
		bj = it
	} else {
		bj = c.iadd(c.isub(it, a.Off), b.Off)
	}
	arr := a.Arr
	usePattern := false
	if c.noName == 0 && e.qdepth == 0 {
		if !c.declaredSym[arr.S] {
			arr = c.name(arr, "seqarr") // arrays are named by declared constants (see Ctx.name)
		}
		usePattern = c.declaredSym[arr.S]
	}
	body := Implies(And(c.ile(a.Off, it), c.ilt(it, c.iadd(a.Off, a.Len))), Eq(Select(arr, it), Select(b.Arr, bj)))
	if !usePattern {
		return And(Eq(a.Len, b.Len), Term{fmt.Sprintf("(forall ((%s %s)) %s)", i, c.idxSort(), body.S), SBool})
	}
	return And(Eq(a.Len, b.Len), Term{fmt.Sprintf("(forall ((%s %s)) (! %s :pattern ((select %s %s))))", i, c.idxSort(), body.S, arr.S, i), SBool})
}

func (e *SpecEnv) call(n *SCall) Val {
	c := e.c
	// qualified builtin e.g. math.Float64bits
	name := ""
	switch f := n.Fun.(type) {
	case *SIdent:
		name = f.Name
	case *SSel:
		if id, ok := f.X.(*SIdent); ok {
			name = id.Name + "." + f.Name
		}
	}
	if name == "" {
		e.fail("unsupported call target")
	}
	switch name {
	case "old":
		if e.old == nil {
			e.fail("old() without a pre-state")
		}
		sub := e.sub()
		sub.cur = e.old
		if e.now == nil {
			sub.now = e.cur
		}
		// locals shadowing: old(x) of a parameter resolves through vars (entry values)
		v := sub.eval(n.Args[0])
		e.facts = append(e.facts, sub.facts[len(e.facts):]...)
		return v
	case "len":
		switch s := e.eval(n.Args[0]).(type) {
		case Slice:
			return Scalar{s.Len, tInt}
		case Seq:
			return Scalar{s.Len, tInt}
		case ArrayV:
			return Scalar{c.idx(s.N), tInt}
		case Scalar:
			if s.T.Sort == SStr {
				return Scalar{app(c.idxSort(), "str.len", s.T), tInt}
			}
			if mt, isMap := s.Ty.Underlying().(*types.Map); isMap {
				l := Select(c.mapHeap(e.cur, c.mapPrefix(mt)+"#len", c.idxSort()), s.T)
				return Scalar{Ite(Eq(s.T, Term{"0", SInt}), c.idx(0), l), tInt}
			}
		case NilV:
			return Scalar{c.idx(0), tInt}
		}
		e.fail("len of unsupported value")
	case "cap":
		if s, ok := e.eval(n.Args[0]).(Slice); ok {
			return Scalar{s.Cap, tInt}
		}
		e.fail("cap of unsupported value")
	case "ite":
		cond := e.boolTerm(n.Args[0])
		a, b := e.eval(n.Args[1]), e.eval(n.Args[2])
		if ka, ok := a.(Const); ok {
			if sb, ok := b.(Scalar); ok {
				a = c.asScalar(ka, sb.Ty)
			}
		}
		if kb, ok := b.(Const); ok {
			if sa, ok := a.(Scalar); ok {
				b = c.asScalar(kb, sa.Ty)
			}
		}
		if ka, ok := a.(Const); ok {
			if kb, ok := b.(Const); ok {
				a, b = c.asScalar(ka, tInt), c.asScalar(kb, tInt)
			}
		}
		return c.iteVal(cond, a, b)
	case "ref":
		switch s := e.eval(n.Args[0]).(type) {
		case Slice:
			return Scalar{s.Ref, tInt}
		case Ptr:
			return Scalar{s.Ref, tInt}
		case ArrayV:
			return Scalar{s.Ref, tInt}
		case Scalar:
			return Scalar{s.T, tInt}
		}
		e.fail("ref of unsupported value")
	case "off":
		if s, ok := e.eval(n.Args[0]).(Slice); ok {
			return Scalar{s.Off, tInt}
		}
		e.fail("off of non-slice")
	case "pidx":
		if p, ok := e.eval(n.Args[0]).(Ptr); ok {
			return Scalar{p.Idx, tInt}
		}
		e.fail("pidx needs a pointer")
	case "samehdr":
		a, aok := e.eval(n.Args[0]).(Slice)
		b, bok := e.eval(n.Args[1]).(Slice)
		if !aok || !bok {
			e.fail("samehdr needs two slices")
		}
		return Scalar{And(Eq(a.Ref, b.Ref), Eq(a.Off, b.Off), Eq(a.Len, b.Len), Eq(a.Cap, b.Cap)), tBool}
	case "sameobj":
		a, b := e.eval(n.Args[0]), e.eval(n.Args[1])
		return Scalar{Eq(refOf(a), refOf(b)), tBool}
	case "fresh":
		// allocated after the pre-state
		if e.old == nil {
			e.fail("fresh() without a pre-state")
		}
		r := refOf(e.eval(n.Args[0]))
		return Scalar{app(SBool, "<", e.old.alloc, r), tBool}
	case "disjoint":
		a, b := refOf(e.eval(n.Args[0])), refOf(e.eval(n.Args[1]))
		return Scalar{Or(Not(Eq(a, b)), Eq(a, Term{"0", SInt})), tBool}
	case "bits", "math.Float64bits", "math.Float64frombits", "frombits":
		s := c.asScalar(e.eval(n.Args[0]), types.Typ[types.Uint64])
		if c.mode != ModeBV {
			e.fail("float bit casts need mode bv")
		}
		if name == "bits" || name == "math.Float64bits" {
			return Scalar{s.T, types.Typ[types.Uint64]}
		}
		return Scalar{s.T, types.Typ[types.Float64]}
	case "isNaN":
		s := e.eval(n.Args[0]).(Scalar)
		return Scalar{app(SBool, "fp.isNaN", toFP(s.T)), tBool}
	case "flt", "fle", "feq":
		a, b := e.eval(n.Args[0]).(Scalar), e.eval(n.Args[1]).(Scalar)
		if c.mode != ModeBV {
			// int mode: floats are an uninterpreted sort; the comparison is the one the code's own ==, <, <= produce
			return Scalar{c.floatCompare(map[string]token.Token{"flt": token.LSS, "fle": token.LEQ, "feq": token.EQL}[name], a.T, b.T), tBool}
		}
		op := map[string]string{"flt": "fp.lt", "fle": "fp.leq", "feq": "fp.eq"}[name]
		return Scalar{app(SBool, op, toFP(a.T), toFP(b.T)), tBool}
	case "min", "max":
		a, b := e.eval(n.Args[0]), e.eval(n.Args[1])
		var ty types.Type = tInt
		if s, ok := a.(Scalar); ok {
			ty = s.Ty
		} else if s, ok := b.(Scalar); ok {
			ty = s.Ty
		}
		sa, sb := c.asScalar(a, ty), c.asScalar(b, ty)
		lt := c.intCompare(token.LSS, sa.T, sb.T, ty)
		if name == "min" {
			return Scalar{Ite(lt, sa.T, sb.T), ty}
		}
		return Scalar{Ite(lt, sb.T, sa.T), ty}
	case "bytes.Compare":
		a, b := e.toSeq(e.eval(n.Args[0])), e.toSeq(e.eval(n.Args[1]))
		return c.bytesCompare(a, b)
	case "unbox":
		// unbox(x, T): the *T stored in interface value x (interfaces hold whole-object pointers, see coerce)
		id, ok := n.Args[1].(*SIdent)
		if !ok || len(n.Args) != 2 {
			e.fail("unbox(x, T) expected")
		}
		t := c.resolveTypeTextIn(id.Name, e.pkg)
		switch s := e.eval(n.Args[0]).(type) {
		case Scalar:
			return Ptr{s.T, c.idx(0), t}
		case Interior:
			return Ptr{s.Ref, s.Idx, t}
		case Ptr:
			return Ptr{s.Ref, s.Idx, t}
		}
		e.fail("unbox: interface value expected")
	case "haskey":
		// haskey(m, k): k is a key of map m in the state the clause is evaluated in
		if len(n.Args) != 2 {
			e.fail("haskey(m, k) expected")
		}
		if ms, ok := e.eval(n.Args[0]).(Scalar); ok {
			if mt, isMap := ms.Ty.Underlying().(*types.Map); isMap {
				kv := e.eval(n.Args[1])
				if kc, isC := kv.(Const); isC {
					kv = c.asScalar(kc, mt.Key())
				}
				ks, ok := kv.(Scalar)
				if !ok {
					e.fail("haskey: scalar key expected")
				}
				return Scalar{c.mapHas(e.cur, mt, ms.T, ks.T), tBool}
			}
		}
		e.fail("haskey(m, k): map expected")
	case "deref":
		// deref(p): the value p points at (Go's *p) in the state the clause is evaluated in; p must be a pointer
		if len(n.Args) != 1 {
			e.fail("deref(p) expected")
		}
		if p, ok := e.eval(n.Args[0]).(Ptr); ok {
			return e.specLoad(c.elemPrefix(p.Elem), p.Elem, p.Ref, p.Idx)
		}
		e.fail("deref(p): pointer expected")
	case "wrap":
		// wrap(x): x reduced into the range of its own Go type (two's complement) - the value Go's wrapping arithmetic
		// yields for the mathematical result x. Identity in bv mode, where spec arithmetic already wraps.
		if len(n.Args) != 1 {
			e.fail("wrap(x) expected")
		}
		if s, ok := e.eval(n.Args[0]).(Scalar); ok && isIntType(s.Ty) {
			if c.mode == ModeBV {
				return s
			}
			return Scalar{c.wrapInt(s.T, s.Ty), s.Ty}
		}
		e.fail("wrap(x): integer expected")
	case "rawbytes":
		// the in-memory bytes of an integer value as seen through an unsafe byte view (see evalConversion)
		s, ok := e.eval(n.Args[0]).(Scalar)
		if !ok || !isIntType(s.Ty) {
			e.fail("rawbytes needs a typed integer argument")
		}
		w, _, _ := intInfoOf(s.Ty)
		bs := c.scalarSort(types.Typ[types.Uint8])
		fn := "unsafe.bytes." + smtIdent(typeKey(s.Ty))
		c.declareUF(fn, []string{s.T.Sort}, arraySort(c.idxSort(), bs))
		return Seq{app(arraySort(c.idxSort(), bs), fn, s.T), c.idx(0), c.idx(int64(w / 8)), types.Typ[types.Uint8]}
	}
	// type conversions
	if t, ok := basicByName[name]; ok && len(n.Args) == 1 {
		v := e.eval(n.Args[0])
		switch s := v.(type) {
		case Const:
			if isIntType(t) {
				// wrap constant into the type
				lo, hi, _ := typeRange(t)
				w := new(big.Int).Add(new(big.Int).Sub(hi, lo), big.NewInt(1))
				x := new(big.Int).Sub(s.V, lo)
				x.Mod(x, w)
				x.Add(x, lo)
				return Scalar{IntLit(c.scalarSort(t), x), t}
			}
			if isFloatType(t) {
				f, _ := new(big.Float).SetInt(s.V).Float64()
				return c.floatConst(f, t)
			}
		case Scalar:
			if isIntType(t) && isIntType(s.Ty) {
				if c.mode == ModeInt && e.qdepth >= 0 {
					return Scalar{c.convertInt(s.T, s.Ty, t), t}
				}
				return Scalar{c.convertInt(s.T, s.Ty, t), t}
			}
			if isFloatType(t) && isFloatType(s.Ty) {
				return Scalar{s.T, t}
			}
			if s.T.Sort == c.scalarSort(t) {
				return Scalar{s.T, t}
			}
		}
		e.fail("unsupported conversion %s(%T)", name, v)
	}
	// spec functions
	if sf := e.findSpecFunc(name); sf != nil {
		return e.applySpecFunc(sf, n.Args)
	}
	// named Go types as conversions (e.g. SeriesID(x))
	if e.pkg != nil && e.pkg.types != nil && len(n.Args) == 1 {
		if o := e.pkg.types.Scope().Lookup(name); o != nil {
			if tn, ok := o.(*types.TypeName); ok {
				v := e.eval(n.Args[0])
				switch s := v.(type) {
				case Const:
					return c.asScalar(s, tn.Type())
				case Scalar:
					if isIntType(tn.Type()) && isIntType(s.Ty) {
						return Scalar{c.convertInt(s.T, s.Ty, tn.Type()), tn.Type()}
					}
					return Scalar{s.T, tn.Type()}
				}
			}
		}
	}
	e.fail("unknown spec function %q", name)
	return nil
}

func refOf(v Val) Term {
	switch s := v.(type) {
	case Slice:
		return s.Ref
	case Ptr:
		return s.Ref
	case ArrayV:
		return s.Ref
	case Scalar:
		return s.T
	case NilV:
		return Term{"0", SInt}
	}
	panic(unsupported{fmt.Sprintf("spec: ref of unsupported value %T", v)})
}

func (e *SpecEnv) findSpecFunc(name string) *SpecFunc {
	search := func(pk *Pkg) *SpecFunc {
		if pk == nil || pk.contracts == nil {
			return nil
		}
		for _, sf := range pk.contracts.SpecFuncs {
			if sf.Name == name {
				return sf
			}
		}
		return nil
	}
	if sf := search(e.pkg); sf != nil {
		return sf
	}
	if k := strings.IndexByte(name, '.'); k > 0 {
		for _, pk := range e.c.prog.pkgs {
			if pk.types != nil && pk.types.Name() == name[:k] {
				for _, sf := range pk.contracts.SpecFuncs {
					if sf.Name == name[k+1:] {
						return sf
					}
				}
			}
		}
	}
	for _, pk := range e.c.prog.pkgs {
		if sf := search(pk); sf != nil {
			return sf
		}
	}
	return nil
}

// applySpecFunc: non-recursive spec functions are macros (expanded in the caller's states, so they may read the
// heap); recursive / declared ones become SMT functions over scalar and sequence parameters.
func (e *SpecEnv) applySpecFunc(sf *SpecFunc, args []SExpr) Val {
	c := e.c
	if len(args) != len(sf.Params) {
		e.fail("spec func %s: %d arguments for %d parameters", sf.Name, len(args), len(sf.Params))
	}
	if e.depth > 40 {
		e.fail("spec func expansion too deep (recursive macro %s?)", sf.Name)
	}
	var avs []Val
	for i, a := range args {
		v := e.eval(a)
		pt := c.resolveTypeTextIn(sf.Params[i].Type, e.c.prog.byRel[sf.Pkg])
		if k, ok := v.(Const); ok {
			v = c.asScalar(k, pt)
		}
		if _, isSl := pt.Underlying().(*types.Slice); isSl {
			if _, isNil := v.(NilV); isNil {
				v = c.zero(pt)
			}
			if sf.Rec || sf.Decl || c.opaqueSpec(sf.Name) {
				v = e.toSeq(v)
			}
		}
		avs = append(avs, v)
	}
	if sf.Rec || sf.Decl {
		return e.applySMTFunc(sf, avs)
	}
	if c.opaqueSpec(sf.Name) {
		// "opt opaque-spec name": the definition is hidden in this function's obligations (only congruence remains)
		cp := *sf
		cp.Decl = true
		return e.applySMTFunc(&cp, avs)
	}
	sub := e.sub()
	sub.vars = map[string]Val{}
	for i, p := range sf.Params {
		sub.vars[p.Name] = avs[i]
	}
	sub.pkg = c.prog.byRel[sf.Pkg]
	sub.scopePos = token.NoPos
	sub.depth = e.depth + 1
	r := sub.eval(sf.Body)
	e.facts = append(e.facts, sub.facts[len(e.facts):]...)
	rt := c.resolveTypeTextIn(sf.Result, sub.pkg)
	if k, ok := r.(Const); ok {
		r = c.asScalar(k, rt)
	}
	if s, ok := r.(Scalar); ok && e.qdepth == 0 && c.noName == 0 && !strings.Contains(s.T.S, "(forall") && !strings.Contains(s.T.S, "(exists") {
		return Scalar{c.nameIfBig(s.T, sf.Name), rt}
	} else if ok {
		return Scalar{s.T, rt}
	}
	return r
}

func (c *Ctx) opaqueSpec(name string) bool {
	if c.fc == nil {
		return false
	}
	for _, n := range strings.Fields(c.fc.Opts["opaque-spec"]) {
		if n == name {
			return true
		}
	}
	return false
}

func (c *Ctx) resolveTypeTextIn(s string, pk *Pkg) types.Type {
	save := c.pkg
	if pk != nil {
		c.pkg = pk
	}
	defer func() { c.pkg = save }()
	return c.resolveTypeText(s)
}

func (e *SpecEnv) applySMTFunc(sf *SpecFunc, avs []Val) Val {
	c := e.c
	fname := "spec." + sf.Name
	pk := c.prog.byRel[sf.Pkg]
	rt := c.resolveTypeTextIn(sf.Result, pk)
	rs := c.scalarSort(rt)
	if !c.specDefined[fname] {
		c.specDefined[fname] = true
		var params []string
		sub := e.sub()
		sub.vars = map[string]Val{}
		sub.pkg = pk
		sub.scopePos = token.NoPos
		sub.qdepth++
		for _, p := range sf.Params {
			pt := c.resolveTypeTextIn(p.Type, pk)
			if sl, ok := pt.Underlying().(*types.Slice); ok {
				es := c.scalarSort(sl.Elem())
				a, o, l := c.sym(p.Name+".arr"), c.sym(p.Name+".off"), c.sym(p.Name+".len")
				params = append(params, fmt.Sprintf("(%s %s)", a, arraySort(c.idxSort(), es)), fmt.Sprintf("(%s %s)", o, c.idxSort()), fmt.Sprintf("(%s %s)", l, c.idxSort()))
				sub.vars[p.Name] = Seq{Term{a, arraySort(c.idxSort(), es)}, Term{o, c.idxSort()}, Term{l, c.idxSort()}, sl.Elem()}
				continue
			}
			ps := c.scalarSort(pt)
			if ps == "" {
				e.fail("spec func %s: parameter type %s not supported for SMT functions", sf.Name, p.Type)
			}
			s := c.sym(p.Name)
			params = append(params, fmt.Sprintf("(%s %s)", s, ps))
			sub.vars[p.Name] = Scalar{Term{s, ps}, pt}
		}
		if sf.Decl {
			// uninterpreted: declare with parameter sorts
			var sorts []string
			for _, p := range params {
				// p is "(name sort)": drop the outer parentheses and the name
				inner := p[1 : len(p)-1]
				sorts = append(sorts, strings.TrimSpace(inner[strings.IndexByte(inner, ' ')+1:]))
			}
			c.raw(fmt.Sprintf("(declare-fun %s (%s) %s)", fname, strings.Join(sorts, " "), rs))
		} else {
			c.noName++
			body := sub.eval(sf.Body)
			c.noName--
			if k, ok := body.(Const); ok {
				body = c.asScalar(k, rt)
			}
			bs := body.(Scalar)
			c.raw(fmt.Sprintf("(define-fun-rec %s (%s) %s %s)", fname, strings.Join(params, " "), rs, bs.T.S))
		}
	}
	var args []Term
	for _, v := range avs {
		switch s := v.(type) {
		case Seq:
			args = append(args, s.Arr, s.Off, s.Len)
		case Scalar:
			args = append(args, s.T)
		case Ptr:
			args = append(args, s.Ref)
		default:
			e.fail("spec func %s: unsupported argument %T", sf.Name, v)
		}
	}
	if len(args) == 0 {
		return Scalar{Term{fname, rs}, rt}
	}
	return Scalar{app(rs, fname, args...), rt}
}

// bytesCompare models bytes.Compare's sign on two sequences via an uninterpreted lexicographic order restricted
// to what the contracts need: result < 0, == 0, > 0.
func (c *Ctx) bytesCompare(a, b Seq) Val {
	es := c.scalarSort(a.Elem)
	arr := arraySort(c.idxSort(), es)
	if !c.uf["bytes.cmp"] {
		c.declareUF("bytes.cmp", []string{arr, c.idxSort(), c.idxSort(), arr, c.idxSort(), c.idxSort()}, c.idxSort())
		c.trusted["bytes.Compare: uninterpreted except where a lemma defines it"] = true
	}
	return Scalar{app(c.idxSort(), "bytes.cmp", a.Arr, a.Off, a.Len, b.Arr, b.Off, b.Len), tInt}
}

func sexprString(x SExpr) string {
	switch n := x.(type) {
	case *SIdent:
		return n.Name
	case *SLit:
		if n.Int != nil {
			return n.Int.String()
		}
		if n.Bool != nil {
			return fmt.Sprint(*n.Bool)
		}
		return fmt.Sprintf("%q", *n.Str)
	case *SBin:
		return "(" + sexprString(n.L) + " " + n.Op + " " + sexprString(n.R) + ")"
	case *SUn:
		return n.Op + sexprString(n.X)
	case *SCall:
		var as []string
		for _, a := range n.Args {
			as = append(as, sexprString(a))
		}
		return sexprString(n.Fun) + "(" + strings.Join(as, ", ") + ")"
	case *SIndex:
		return sexprString(n.X) + "[" + sexprString(n.I) + "]"
	case *SSlice:
		lo, hi := "", ""
		if n.Lo != nil {
			lo = sexprString(n.Lo)
		}
		if n.Hi != nil {
			hi = sexprString(n.Hi)
		}
		return sexprString(n.X) + "[" + lo + ":" + hi + "]"
	case *SSel:
		return sexprString(n.X) + "." + n.Name
	case *SQuant:
		q := "exists"
		if n.Forall {
			q = "forall"
		}
		var vs []string
		for _, p := range n.Vars {
			vs = append(vs, p.Name+" "+p.Type)
		}
		return q + " " + strings.Join(vs, ", ") + " :: " + sexprString(n.Body)
	}
	return "?"
}

// patternSafe: the term contains no boolean connectives / ite (which solvers reject inside triggers).
func patternSafe(s string) bool {
	for _, bad := range []string{"(ite ", "(and ", "(or ", "(=> ", "(not ", "(= ", "(<= ", "(< ", "(bvsle ", "(bvslt ", "(bvule ", "(bvult "} {
		if strings.Contains(s, bad) {
			return false
		}
	}
	return true
}
