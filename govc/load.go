package main

import (
	"fmt"
	"go/ast"
	"go/token"
	"go/types"
	"os"
	"path/filepath"
	"strings"

	"golang.org/x/tools/go/packages"
)

const contractFileName = "zz_contracts_verif.go"

type Pkg struct {
	path      string // import path
	rel       string // directory relative to repo root
	dir       string
	types     *types.Package
	info      *types.Info
	files     []*ast.File
	funcs     map[string]*ast.FuncDecl // "Func" or "Recv.Func"
	contracts *ContractFile
	illTyped  bool
}

type Program struct {
	root   string
	module string
	fset   *token.FileSet
	pkgs   []*Pkg
	byPath map[string]*Pkg
	byRel  map[string]*Pkg
}

func funcKey(fd *ast.FuncDecl) string {
	if fd.Recv == nil || len(fd.Recv.List) == 0 {
		return fd.Name.Name
	}
	t := fd.Recv.List[0].Type
	for {
		switch x := t.(type) {
		case *ast.StarExpr:
			t = x.X
			continue
		case *ast.IndexExpr:
			t = x.X
			continue
		case *ast.IndexListExpr:
			t = x.X
			continue
		case *ast.ParenExpr:
			t = x.X
			continue
		}
		break
	}
	if id, ok := t.(*ast.Ident); ok {
		return id.Name + "." + fd.Name.Name
	}
	return fd.Name.Name
}

// LoadProgram loads the given package directories (relative to root) with full syntax and type information.
// Ill-typed packages (missing generated protobuf imports) are accepted.
func LoadProgram(root string, rels []string, overlay map[string][]byte) (*Program, error) {
	fset := token.NewFileSet()
	cfg := &packages.Config{
		Mode: packages.NeedName | packages.NeedFiles | packages.NeedSyntax | packages.NeedTypes | packages.NeedTypesInfo |
			packages.NeedDeps | packages.NeedImports | packages.NeedModule,
		Dir:        root,
		Fset:       fset,
		BuildFlags: []string{"-tags=verif"},
		Env:        append(os.Environ(), "GOFLAGS=-mod=mod", "GOPROXY=off"),
		Overlay:    overlay,
	}
	var pats []string
	for _, r := range rels {
		pats = append(pats, "./"+r)
	}
	ps, err := packages.Load(cfg, pats...)
	if err != nil {
		return nil, err
	}
	prog := &Program{root: root, fset: fset, byPath: map[string]*Pkg{}, byRel: map[string]*Pkg{}}
	for _, p := range ps {
		if p.Module != nil {
			prog.module = p.Module.Path
		}
		if len(p.Syntax) == 0 {
			var msgs []string
			for _, e := range p.Errors {
				msgs = append(msgs, e.Error())
			}
			return nil, fmt.Errorf("package %s: no syntax loaded: %s", p.PkgPath, strings.Join(msgs, "; "))
		}
		rel := strings.TrimPrefix(strings.TrimPrefix(p.PkgPath, prog.module), "/")
		pk := &Pkg{path: p.PkgPath, rel: rel, types: p.Types, info: p.TypesInfo, files: p.Syntax, funcs: map[string]*ast.FuncDecl{},
			illTyped: p.IllTyped}
		if len(p.GoFiles) > 0 {
			pk.dir = filepath.Dir(p.GoFiles[0])
		} else {
			pk.dir = filepath.Join(root, rel)
		}
		for _, f := range p.Syntax {
			for _, d := range f.Decls {
				if fd, ok := d.(*ast.FuncDecl); ok {
					pk.funcs[funcKey(fd)] = fd
				}
			}
		}
		cpath := filepath.Join(pk.dir, contractFileName)
		if data, ok := overlay[cpath]; ok {
			cf, err := ParseContractText(string(data), cpath, rel)
			if err != nil {
				return nil, err
			}
			pk.contracts = cf
		} else if _, err := os.Stat(cpath); err == nil {
			cf, err := ParseContractFile(cpath, rel)
			if err != nil {
				return nil, err
			}
			pk.contracts = cf
		}
		prog.pkgs = append(prog.pkgs, pk)
		prog.byPath[pk.path] = pk
		prog.byRel[rel] = pk
	}
	return prog, nil
}

// lookupFunc finds the declaration and contract of a statically resolved callee.
func (p *Program) lookupFunc(fn *types.Func) (*Pkg, *ast.FuncDecl, *FuncContract) {
	if fn.Pkg() == nil {
		return nil, nil, nil
	}
	pk := p.byPath[fn.Pkg().Path()]
	if pk == nil {
		return nil, nil, nil
	}
	key := fn.Name()
	if sig, ok := fn.Type().(*types.Signature); ok && sig.Recv() != nil {
		rt := sig.Recv().Type()
		if pt, ok := rt.(*types.Pointer); ok {
			rt = pt.Elem()
		}
		if n, ok := rt.(*types.Named); ok {
			key = n.Obj().Name() + "." + fn.Name()
		}
	}
	var fc *FuncContract
	if pk.contracts != nil {
		fc = pk.contracts.Funcs[key]
	}
	return pk, pk.funcs[key], fc
}
