package main

import (
	"fmt"
	"go/ast"
	"go/types"
)

// Prelude: built-in (trusted) models of standard-library functions. Every model used by a run is listed in that
// run's evidence under trusted_base.

type preludeFn func(c *Ctx, st *State, x *ast.CallExpr, recv Val) Val

var prelude map[string]preludeFn

// preludeWrites: heap family written by a prelude function ("" = none).
var preludeWrites = map[string]string{}

func init() {
	prelude = map[string]preludeFn{
		"encoding/binary.bigEndian.Uint16":       func(c *Ctx, st *State, x *ast.CallExpr, r Val) Val { return c.beRead(st, x, 2, types.Typ[types.Uint16], true) },
		"encoding/binary.bigEndian.Uint32":       func(c *Ctx, st *State, x *ast.CallExpr, r Val) Val { return c.beRead(st, x, 4, types.Typ[types.Uint32], true) },
		"encoding/binary.bigEndian.Uint64":       func(c *Ctx, st *State, x *ast.CallExpr, r Val) Val { return c.beRead(st, x, 8, types.Typ[types.Uint64], true) },
		"encoding/binary.littleEndian.Uint16":    func(c *Ctx, st *State, x *ast.CallExpr, r Val) Val { return c.beRead(st, x, 2, types.Typ[types.Uint16], false) },
		"encoding/binary.littleEndian.Uint32":    func(c *Ctx, st *State, x *ast.CallExpr, r Val) Val { return c.beRead(st, x, 4, types.Typ[types.Uint32], false) },
		"encoding/binary.littleEndian.Uint64":    func(c *Ctx, st *State, x *ast.CallExpr, r Val) Val { return c.beRead(st, x, 8, types.Typ[types.Uint64], false) },
		"encoding/binary.bigEndian.PutUint16":    func(c *Ctx, st *State, x *ast.CallExpr, r Val) Val { return c.beWrite(st, x, 2, true) },
		"encoding/binary.bigEndian.PutUint32":    func(c *Ctx, st *State, x *ast.CallExpr, r Val) Val { return c.beWrite(st, x, 4, true) },
		"encoding/binary.bigEndian.PutUint64":    func(c *Ctx, st *State, x *ast.CallExpr, r Val) Val { return c.beWrite(st, x, 8, true) },
		"encoding/binary.littleEndian.PutUint16": func(c *Ctx, st *State, x *ast.CallExpr, r Val) Val { return c.beWrite(st, x, 2, false) },
		"encoding/binary.littleEndian.PutUint32": func(c *Ctx, st *State, x *ast.CallExpr, r Val) Val { return c.beWrite(st, x, 4, false) },
		"encoding/binary.littleEndian.PutUint64": func(c *Ctx, st *State, x *ast.CallExpr, r Val) Val { return c.beWrite(st, x, 8, false) },
		"encoding/binary.Uvarint":                preUvarint,
		"reflect.ValueOf": func(c *Ctx, st *State, x *ast.CallExpr, r Val) Val {
			c.trust("reflect.ValueOf(x).IsNil() = (x == nil) for reference-like x")
			v := c.eval(st, x.Args[0])
			switch s := v.(type) {
			case Ptr:
				return Scalar{s.Ref, types.Typ[types.UnsafePointer]}
			case Scalar:
				return Scalar{s.T, types.Typ[types.UnsafePointer]}
			case Slice:
				return Scalar{s.Ref, types.Typ[types.UnsafePointer]}
			}
			unsupp("reflect.ValueOf of %T", v)
			return nil
		},
		"reflect.Value.IsNil": func(c *Ctx, st *State, x *ast.CallExpr, r Val) Val {
			s, ok := r.(Scalar)
			if !ok {
				unsupp("reflect.Value.IsNil on unmodelled value")
			}
			return Scalar{Eq(s.T, Term{"0", SInt}), tBool}
		},
		"math.Float64bits":                       preFloatBits,
		"math.Float64frombits":                   preFloatFromBits,
		"math.Float32bits":                       preFloatBits,
		"math.Float32frombits":                   preFloatFromBits,
		"fmt.Errorf":                             preNewError,
		"errors.New":                             preNewError,
		"github.com/pkg/errors.New":              preNewError,
		"github.com/pkg/errors.Errorf":           preNewError,
		"github.com/pkg/errors.Wrap":             preWrapError,
		"github.com/pkg/errors.Wrapf":            preWrapError,
		"github.com/pkg/errors.WithMessage":      preWrapError,
		"github.com/pkg/errors.WithMessagef":     preWrapError,
		"github.com/pkg/errors.WithStack":        preWrapError,
		"fmt.Sprintf":                            preOpaqueString,
		"fmt.Sprint":                             preOpaqueString,
		"strconv.Itoa":                           preOpaqueString,
		"strconv.FormatInt":                      preOpaqueString,
		"strconv.FormatUint":                     preOpaqueString,
		"bytes.Equal":                            preBytesEqual,
		"bytes.Compare":                          preBytesCompare,
		"math/bits.Len32":                        func(c *Ctx, st *State, x *ast.CallExpr, r Val) Val { return c.bitsLen(st, x, 32) },
		"math/bits.Len64":                        func(c *Ctx, st *State, x *ast.CallExpr, r Val) Val { return c.bitsLen(st, x, 64) },
		"math/bits.Len":                          func(c *Ctx, st *State, x *ast.CallExpr, r Val) Val { return c.bitsLen(st, x, 64) },
		"math/bits.Len8":                         func(c *Ctx, st *State, x *ast.CallExpr, r Val) Val { return c.bitsLen(st, x, 8) },
	}
	for _, n := range []string{"PutUint16", "PutUint32", "PutUint64"} {
		preludeWrites["encoding/binary.bigEndian."+n] = "uint8"
		preludeWrites["encoding/binary.littleEndian."+n] = "uint8"
	}
}

func (c *Ctx) trust(s string) { c.trusted["prelude: "+s] = true }

func (c *Ctx) beRead(st *State, x *ast.CallExpr, n int, t types.Type, big bool) Val {
	c.trust("encoding/binary byte-order reads")
	s := c.evalSlice(st, x.Args[0])
	c.oblige(st, "bounds", "binary-read", x.Pos(), c.ile(c.idx(int64(n)), s.Len), fmt.Sprintf("binary read needs %d bytes", n))
	var bytes []Term
	for i := 0; i < n; i++ {
		v := c.load(st, c.elemPrefix(s.Elem), s.Elem, s.Ref, c.iadd(s.Off, c.idx(int64(i)))).(Scalar)
		bytes = append(bytes, v.T)
	}
	if !big {
		for i, j := 0, len(bytes)-1; i < j; i, j = i+1, j-1 {
			bytes[i], bytes[j] = bytes[j], bytes[i]
		}
	}
	if c.mode == ModeBV {
		return Scalar{c.name(app(bvSort(8*n), "concat", bytes...), "be"), t}
	}
	var parts []Term
	for i, b := range bytes {
		sh := 8 * (n - 1 - i)
		if sh == 0 {
			parts = append(parts, b)
		} else {
			parts = append(parts, app(SInt, "*", b, IntLit(SInt, pow2(sh))))
		}
	}
	return Scalar{c.name(app(SInt, "+", parts...), "be"), t}
}

func (c *Ctx) beWrite(st *State, x *ast.CallExpr, n int, big bool) Val {
	c.trust("encoding/binary byte-order writes")
	s := c.evalSlice(st, x.Args[0])
	vt := c.typeOf(x.Args[1])
	v := c.asScalar(c.eval(st, x.Args[1]), vt).T
	c.oblige(st, "bounds", "binary-write", x.Pos(), c.ile(c.idx(int64(n)), s.Len), fmt.Sprintf("binary write needs %d bytes", n))
	c.checkWriteRange(st, c.elemPrefix(s.Elem), s.Elem, s.Ref, s.Off, c.iadd(s.Off, c.idx(int64(n))), x.Pos(), TTrue)
	for i := 0; i < n; i++ {
		k := n - 1 - i // byte significance for position i (big endian)
		if !big {
			k = i
		}
		var b Term
		if c.mode == ModeBV {
			b = Term{fmt.Sprintf("((_ extract %d %d) %s)", 8*k+7, 8*k, v.S), bvSort(8)}
		} else {
			b = app(SInt, "mod", app(SInt, "div", v, IntLit(SInt, pow2(8*k))), Term{"256", SInt})
		}
		c.store(st, c.elemPrefix(s.Elem), s.Elem, s.Ref, c.iadd(s.Off, c.idx(int64(i))), Scalar{b, s.Elem})
	}
	return Tuple{}
}

func preUvarint(c *Ctx, st *State, x *ast.CallExpr, r Val) Val {
	c.trust("encoding/binary.Uvarint: returns (x, n) with -len(buf) <= n <= len(buf), |n| <= 10 (value uninterpreted)")
	s := c.evalSlice(st, x.Args[0])
	var facts []Term
	val := c.fresh(types.Typ[types.Uint64], "uvarint", &facts).(Scalar)
	n := c.fresh(tInt, "uvarint_n", &facts).(Scalar)
	ten := c.idx(10)
	neg := func(t Term) Term {
		if c.mode == ModeBV {
			return app(t.Sort, "bvneg", t)
		}
		return app(SInt, "-", t)
	}
	facts = append(facts, c.ile(n.T, s.Len), c.ile(neg(s.Len), n.T), c.ile(n.T, ten), c.ile(neg(ten), n.T))
	st.assume(c, And(facts...))
	return Tuple{[]Val{val, n}}
}

func preFloatBits(c *Ctx, st *State, x *ast.CallExpr, r Val) Val {
	at := c.typeOf(x.Args[0])
	v := c.asScalar(c.eval(st, x.Args[0]), at)
	rt := c.typeOf(x)
	if c.mode == ModeBV {
		return Scalar{v.T, rt}
	}
	c.trust("math.Float64bits as an uninterpreted injective function (int mode)")
	c.needF64()
	c.declareUF("f64.bits", []string{SF64}, SInt)
	t := c.name(app(SInt, "f64.bits", v.T), "fb")
	st.assume(c, c.inRange(t, rt))
	return Scalar{t, rt}
}

func preFloatFromBits(c *Ctx, st *State, x *ast.CallExpr, r Val) Val {
	at := c.typeOf(x.Args[0])
	v := c.asScalar(c.eval(st, x.Args[0]), at)
	rt := c.typeOf(x)
	if c.mode == ModeBV {
		return Scalar{v.T, rt}
	}
	c.trust("math.Float64frombits as an uninterpreted function (int mode)")
	c.needF64()
	c.declareUF("f64.frombits", []string{SInt}, SF64)
	return Scalar{app(SF64, "f64.frombits", v.T), rt}
}

func preNewError(c *Ctx, st *State, x *ast.CallExpr, r Val) Val {
	for _, a := range x.Args {
		c.evalForEffect(st, a)
	}
	e := c.declare("err", SInt)
	st.assume(c, app(SBool, "<", Term{"0", SInt}, e))
	return Scalar{e, types.Universe.Lookup("error").Type()}
}

func preWrapError(c *Ctx, st *State, x *ast.CallExpr, r Val) Val {
	// errors.Wrap(nil, ...) == nil
	in := c.asScalar(c.eval(st, x.Args[0]), types.Universe.Lookup("error").Type())
	for _, a := range x.Args[1:] {
		c.evalForEffect(st, a)
	}
	e := c.declare("err", SInt)
	st.assume(c, app(SBool, "<=", Term{"0", SInt}, e))
	st.assume(c, Eq(Eq(e, Term{"0", SInt}), Eq(in.T, Term{"0", SInt})))
	return Scalar{e, types.Universe.Lookup("error").Type()}
}

func preOpaqueString(c *Ctx, st *State, x *ast.CallExpr, r Val) Val {
	for _, a := range x.Args {
		c.evalForEffect(st, a)
	}
	c.needStr()
	return Scalar{c.declare("s", SStr), types.Typ[types.String]}
}

// evalForEffect evaluates an argument whose value is irrelevant (formatting operands) but whose evaluation may
// fault (index / slice expressions): obligations are generated, unsupported value kinds are ignored.
func (c *Ctx) evalForEffect(st *State, e ast.Expr) {
	c.evalMaybe(st, e)
}

func preBytesEqual(c *Ctx, st *State, x *ast.CallExpr, r Val) Val {
	c.trust("bytes.Equal = element-wise equality")
	a, b := c.evalSlice(st, x.Args[0]), c.evalSlice(st, x.Args[1])
	env := c.newEnv(st, st)
	return Scalar{c.name(env.seqEq(env.toSeq(a), env.toSeq(b)), "beq"), tBool}
}

func preBytesCompare(c *Ctx, st *State, x *ast.CallExpr, r Val) Val {
	a, b := c.evalSlice(st, x.Args[0]), c.evalSlice(st, x.Args[1])
	env := c.newEnv(st, st)
	v := c.bytesCompare(env.toSeq(a), env.toSeq(b)).(Scalar)
	return Scalar{c.name(v.T, "bcmp"), tInt}
}

func (c *Ctx) bitsLen(st *State, x *ast.CallExpr, w int) Val {
	c.trust("math/bits.Len*: 0 <= result <= width, result == 0 iff x == 0, x < 2^result")
	at := c.typeOf(x.Args[0])
	v := c.asScalar(c.eval(st, x.Args[0]), at).T
	var facts []Term
	n := c.fresh(tInt, "bitlen", &facts).(Scalar)
	facts = append(facts, c.ile(c.idx(0), n.T), c.ile(n.T, c.idx(int64(w))))
	facts = append(facts, Eq(Eq(n.T, c.idx(0)), Eq(v, IntLit64(v.Sort, 0))))
	if c.mode == ModeInt {
		// x < 2^n and (n > 0 => x >= 2^(n-1)) via case split over n
		var cases []Term
		for k := 0; k <= w; k++ {
			lo := Term{"0", SInt}
			if k > 0 {
				lo = IntLit(SInt, pow2(k-1))
			}
			cases = append(cases, Implies(Eq(n.T, c.idx(int64(k))), And(app(SBool, "<", v, IntLit(SInt, pow2(k))), app(SBool, "<=", lo, v))))
		}
		facts = append(facts, cases...)
	}
	st.assume(c, And(facts...))
	return n
}
