#!/bin/bash
# usage: confirm_seed.sh <worktree> <seed-id> <property> <pkgs-to-test> <demo-test-relpath> <demo-run-regex>
# Confirms a seeded change in its scratch worktree: (1) builds and the existing tests of the packages pass with the change
# (demo excluded), (2) the demonstration fails with the change, (3) passes without it. On success copies the artefacts
# to /verif/seeded/<seed-id>/.
set -u
WT=$1; ID=$2; PROP=$3; PKGS=$4; DEMO=$5; RX=$6
export GOFLAGS=-mod=mod GOPROXY=off
cd "$WT" || exit 2
SEED="$WT/_seed"
[ -f "$SEED/patch.diff" ] || { echo "no patch.diff"; exit 2; }
git checkout -q -- . ; git stash clear 2>/dev/null
DEMOFILE=$(basename "$DEMO")
[ -f "$DEMO" ] || cp "$SEED/$DEMOFILE" "$DEMO"
echo "== (3) demo WITHOUT the change"
go test -count=1 -run "$RX" ./$(dirname "$DEMO")/ > /tmp/seed_without.log 2>&1; R3=$?
tail -3 /tmp/seed_without.log
git apply "$SEED/patch.diff" || { echo "patch does not apply"; exit 2; }
echo "== (1) existing tests WITH the change (demo skipped)"
go test -count=1 -skip "$RX" $PKGS > /tmp/seed_existing.log 2>&1; R1=$?
tail -5 /tmp/seed_existing.log
echo "== (2) demo WITH the change"
go test -count=1 -run "$RX" ./$(dirname "$DEMO")/ > /tmp/seed_with.log 2>&1; R2=$?
tail -5 /tmp/seed_with.log
echo "existing=$R1 demo_with=$R2 demo_without=$R3"
if [ $R1 -eq 0 ] && [ $R2 -ne 0 ] && [ $R3 -eq 0 ]; then
  D=/verif/seeded/$ID; mkdir -p $D
  cp "$SEED/patch.diff" $D/patch.diff
  cp "$DEMO" $D/$(basename "$DEMO").txt
  [ -f "$SEED/README.md" ] && cp "$SEED/README.md" $D/AGENT_README.md
  echo "CONFIRMED -> $D"
  exit 0
fi
echo "NOT CONFIRMED"
exit 1
