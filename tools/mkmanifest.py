#!/usr/bin/env python3
"""Regenerates /verif/MANIFEST.json from the tables below (kept here so the manifest stays valid and current)."""
import json, subprocess, sys

HOOK_COMMITS = subprocess.run(
    ["git", "-C", "/repo", "log", "--format=%h %s", "34b4c6e..HEAD"], capture_output=True, text=True).stdout.strip().splitlines()
hook_commits = [l.split()[0] for l in HOOK_COMMITS if l.split(" ", 1)[1].startswith("verif:")]

COMMON_NOTE = ("Trusted: Go compiler/runtime and go/types; the govc translator (guarded by reachability covers and a must-fail "
               "self-test corpus); the SMT solvers; prelude models of stdlib functions listed in the evidence file's trusted_base. ")

CLAIMED = {
    "C12": dict(
        text="Proof (all inputs, no bound) that every pkg/convert sort-key encoder returns exactly the order-preserving image defined "
             "from the property (sign-bit flip for integers, sign-dependent flip for IEEE-754 doubles) and that each decoder inverts it; "
             "lemmas show the images order like the values (incl. bytes.Compare = unsigned compare on 8/4-byte big-endian strings) and are "
             "bijective. Bit-vector semantics, so machine arithmetic is exact.",
        note=COMMON_NOTE + "Not decided: Series.Marshal/MarshalTagValues and dquery/topn composite keys (proto-typed, no type "
             "information in this tree); convert.Hash collisions.",
        technique="contract-based deductive verification: weakest-precondition VCs from the typed Go AST (govc), QF_BV/FP obligations "
                  "discharged by z3/cvc5; counterexamples replayed via go test -overlay",
        design="§3 C12"),
}

CLAIMED["C11"] = dict(
    text="Proof for all inputs (loops by inductive invariants, no bound) of: memory safety, termination of the decoder loops and "
         "frame of the pkg/encoding codecs for arbitrary bytes (varint/varuint decoders, adaptive-width uint64 blocks, plain/zstd block "
         "framing, delta / delta-of-delta / const list decoders, dictionary decode with its run-length index stream); exact value "
         "specifications of the fixed-width and zig-zag codecs (bit-vector semantics) with their inverse lemmas; and the element-wise "
         "round trip of the adaptive-width block codec (encodeUint64List output decodes, by decodeUint64List's contract, to the same "
         "sequence; plain compressed blocks likewise).",
    note=COMMON_NOTE + "Assumed: zstd.Compress/Decompress, the bit-packing reader/writer over io interfaces, pool discipline (a pooled "
         "object is unaliased), objects smaller than 2^60 elements; the float decimal decoder's arithmetic (uninterpreted: the float "
         "codec is proved 'lossless or refused' structurally). Also proved: the escaped array-entry decoder (vararray) is safe, makes "
         "progress and writes nothing when there is no escape byte. Not under contract: EncodeBytesBlock value round trip, the "
         "delta / delta-of-delta bit packing (assumed), the list-level (multi-value) varint round trip. BytesToInt64List is "
         "verified under the precondition itemsCount>=1 (>=2 for delta-of-delta) which its callers take from block metadata.",
    technique="contract-based deductive verification: weakest-precondition VCs from the typed Go AST (govc), loop invariants, "
              "call-by-contract; obligations discharged by z3/cvc5; counterexamples replayed via go test -overlay",
    design="§3 C11")

CLAIMED["C05"] = dict(
    text="Proof of the reference accounting of snapshot transitions (banyand/internal/snapshot, the generic coordinator used by the "
         "trace engine): with ghost reference counts on snapshots and a ghost 'currently published' snapshot per manager, "
         "Commit publishes exactly once (idempotent), Rollback before a commit gives back the pin on the current snapshot and the "
         "prepared next snapshot exactly once each and after a commit touches no reference count, and Release/reset gives back the "
         "pin taken at creation exactly when the transition was committed. This is the 'released once, and only by its holder' half "
         "of the property, for every state of the transition object. For the measure engine's own snapshots: snapshot.incRef / "
         "partWrapper.incRef add exactly one reference, tsTable.currentSnapshot returns the published snapshot with exactly one "
         "more reference, and snapshot.decRef leaves every part untouched while other holders remain and releases every part of "
         "the snapshot exactly once when the last holder leaves (loop invariant over the part list); currentSnapshot takes its pin "
         "while the table's read lock is held (ghost lock flag). The same contracts are proved for the stream engine and for the "
         "trace engine (whose snapshot also implements the generic Snapshot interface through IncRef/DecRef).",
    note=COMMON_NOTE + "Assumed: the Snapshot.IncRef/DecRef and Manager.ReplaceSnapshot interface contracts as documented in the "
         "package; partWrapper.decRef (goroutine). Sequential semantics (no interleavings). Narrow claim: sidx snapshot "
         "reference counting, snapshot.merge/remove/copyAllTo (maps not modelled), the introducer loops and the "
         "publication fence are not decided (channels, goroutines and proto-typed packages); Transaction (slices of closures) is not "
         "yet under contract.",
    technique="contract-based deductive verification with ghost reference counts: VCs from the typed Go AST (govc), call-by-contract on "
              "interface methods, obligations discharged by z3/cvc5",
    design="§3 C05")

CLAIMED["C16"] = dict(
    text="Proof, for all inputs, that (1) partition.ShardID/TraceShardID return hash(key) mod shardNum, defined exactly when "
         "shardNum>=1, always below shardNum, reading and writing nothing else (purity + frame) — so the shard is a function of the key "
         "bytes and the shard count only; (2) the round-robin selector's comparator is an antisymmetric, transitive order that agrees "
         "with the (group, shard) order its binary search assumes, so the lookup table is sorted after every sortEntries; (3) on a strictly "
         "sorted table Pick returns, for every (group, shard) present, the node nodes[(index+replica) mod len(nodes)] and an error "
         "exactly for absent keys or when no node exists (every known shard is assigned); (4) lemma: for replicas < number of nodes the "
         "copies (index+i) mod n are pairwise distinct. A strictly sorted, duplicate-free table is a function of the set of keys, which "
         "is the order-independence argument.",
    note=COMMON_NOTE + "Assumed: convert.Hash (xxhash) is a deterministic function; slices.SortFunc/sort.Search models (sortedness "
         "only, permutation not expressed); mutexes not modelled. Not decided: the event handlers OnAddOrUpdate/OnDelete/OnInit/"
         "AddNode/RemoveNode take generated protobuf messages that have no type information in this tree, so that they re-establish "
         "the strictly-sorted invariant (and that AddNode keeps node names duplicate free) is a stated precondition of Pick, not a "
         "proved invariant; queue/pub label selection and liaison routing are out of reach (proto).",
    technique="contract-based deductive verification: VCs from the typed Go AST (govc) incl. closures passed to sort.Search/"
              "slices.SortFunc, quantified table invariants, obligations discharged by z3/cvc5",
    design="§3 C16")

CLAIMED["C10"] = dict(
    text="Proof (bit-vector semantics, all int64 values incl. wrap-around) of the exact transfer function of every accumulator in "
         "pkg/query/aggregation/function.go instantiated at int64: In/Combine/Partial/Val/Reset of SUM, COUNT, MIN, MAX, MEAN (Map and "
         "Reduce sides, 35 methods), e.g. minReduceFunc.Combine = min despite its sentinel branch and MEAN.Val = the documented "
         "max(1, sum/count) with division by zero unreachable; plus monoid lemmas (associativity, commutativity, identity = the Reset "
         "state) for +, max, min. Together: folding Combine over the Partials of any split of the points yields the state — hence the "
         "Val — of folding In over all points (the induction over the split is the standard monoid-homomorphism argument, stated in "
         "DESIGN.md, not mechanised).",
    note=COMMON_NOTE + "Preconditions not proved at call sites (constructors are proto-typed): the zero/min/max fields hold 0 / "
         "MinInt64 / MaxInt64. Not decided: float64 fields (explicitly excluded by the property), group-by hashing, TOP/BOTTOM-N, "
         "replica de-duplication and the distributed planner glue (proto-typed), vectorized aggregation.",
    technique="contract-based deductive verification: VCs from the typed Go AST of the generic code instantiated at int64 (govc), "
              "QF_BV obligations discharged by z3/cvc5",
    design="§3 C10")

CLAIMED["C13"] = dict(
    text="Proof of the fail-open combination rule of the sampler chain (pkg/pipeline/sdk, the single implementation used by the trace "
         "merge): with Sampler.Decide modelled as arbitrary plugin code that may return an error or panic (exceptional-exit model with "
         "defer/recover), evaluateChainLink reports a verdict as valid only if it has exactly one keep bit per trace; applyChainLink "
         "can only clear keep bits, never set them, and leaves the mask untouched for an invalid link; EvaluateChainInto returns one "
         "bit per trace, keeps every trace when there is no (non-nil) sampler, and no panic of a plugin escapes.",
    note=COMMON_NOTE + "Assumed: plugins do not retain or mutate engine storage; the observer callback has no effect. Narrow claim: "
         "the fragment guard (banyand/trace/fragment_guard.go), the dropped-trace-id set, the merge loops (channels, timeouts) and "
         "query-by-trace-id completeness are not decided (proto-typed package, channels) — so 'kept entirely or removed entirely "
         "together with its index entries' is only covered at the keep/drop decision level of the chain.",
    technique="contract-based deductive verification: VCs from the typed Go AST (govc) with an exceptional-exit model for panics "
              "and recover, quantified mask invariants; obligations discharged by z3/cvc5",
    design="§3 C13")

CLAIMED["C04"] = dict(
    text="Proof of the durability-ordering typestate of the file-system primitives every metadata/manifest write goes through "
         "(pkg/fs): in WriteAtomic the final name is replaced (os.Rename is reached) only when the temporary file was completely "
         "written, fsynced and closed without error; success is returned only after the rename and the directory fsync succeeded; a "
         "failure before the rename attempts removal of the temporary file and leaves the final name untouched; after a failed rename "
         "the complete temporary file is deliberately kept. Write reports success only after a complete write and a successful fsync. "
         "Holds on every path (all error combinations of the OS calls).",
    note=COMMON_NOTE + "Assumed: contracts of os.OpenFile/Write/Sync/Close/Rename/Remove and syncDir that only record which step "
         "succeeded (ghost state). Narrow claim, said plainly: recovery (initTSTable/loadSnapshot/validatePartMetadata), 'exactly a "
         "prefix of acknowledged batches', the engines' flush/manifest/GC ordering (proto-typed packages) and power-loss reordering "
         "are not decided — they need fault enumeration against a file-system model, a different technique family.",
    technique="contract-based deductive verification with ghost typestate: VCs from the typed Go AST (govc), assumed OS contracts, "
              "caller-side at-call assertions; obligations discharged by z3/cvc5",
    design="§3 C04")

STORAGE_NOTE = (COMMON_NOTE + "Sequential semantics: each method is verified as one atomic step over the segment's refCount / index / "
                "mustBeDeleted fields (the real code runs them under segment.mu or as CAS loops; interleavings are not explored — "
                "concurrency is outside this technique). Assumed contracts: segment.initialize, closeResourcesLocked, "
                "fs.FileSystem.MustRMAll/MkdirPanicIfExist/CreateLockFile, segmentController.load/format/getOptions, json/path helpers. ")

CLAIMED["C14"] = dict(
    text="Proof (sequential semantics, all states) of the reference accounting of storage segments: incRef/acquire add exactly one "
         "reference or fail without changing the count (re-opening a closed segment only through initialize), DecRef gives back exactly "
         "one and releases resources only when the count drops to zero, delete/performDelete/closeIfIdle call closeResourcesLocked only with "
         "refCount <= 0 and never touch another segment; removeSeg removes exactly the given segment from the controller list. For "
         "selectSegments/segments: unbounded proof of memory safety, frame and 'every returned element is a list element / nil on error'; "
         "the no-leak and all-pinned postconditions (on error every reference taken is given back, on success each returned segment holds "
         "exactly one more reference and no other segment changes) are BOUNDED stand-ins for controller lists of at most 2 segments "
         "(loops unrolled completely), reported under bounded_standins and not counted as proved.",
    note=STORAGE_NOTE + "Not decided: readers' use of a segment between acquire and DecRef in the engines (measure/stream/trace query "
         "paths are proto-typed), the rotation goroutine, deletion racing a concurrent query (needs interleavings), the tsTable/shard "
         "references inside a segment.",
    technique="contract-based deductive verification: VCs from the typed Go AST (govc) over a heap model with per-field frames and "
              "quantified list invariants, call-by-contract; obligations discharged by z3/cvc5; two postconditions by complete "
              "unrolling to 2 segments (labelled bounded)",
    design="§3 C14")

CLAIMED["C07"] = dict(
    text="Proof (loops by inductive invariants, no bound) that retention only removes expired data and selection never returns it: "
         "segmentController.remove(deadline) deletes exactly segments whose End is not after the deadline and keeps every other list "
         "element (only-expired invariant over the real loop); removeOldest removes only the first (oldest) segment and keeps the rest; "
         "database.SelectSegments drops from selectSegments' result every segment whose whole range lies before the retention "
         "deadline (ghost variable holding getRetentionDeadline's value), so with retention enabled no such segment is returned; timestamp.TimeRange.Contains/Overlapping/Include lemmas "
         "give the interval algebra these rely on.",
    note=STORAGE_NOTE + "Assumed: the retention deadline computation from the TTL rule (calendar arithmetic on time.Time is opaque: "
         "IntervalRule.Standard/NextTime are uninterpreted), time.Now. Not decided: the retention task scheduling (cron goroutine), "
         "TTL changes racing a query, per-part/per-block min/max timestamp pruning inside the engines (proto-typed packages).",
    technique="contract-based deductive verification: VCs from the typed Go AST (govc), quantified loop invariants over the segment "
              "list, time.Time as integer nanoseconds; obligations discharged by z3/cvc5",
    design="§3 C07")

CLAIMED["C06"] = dict(
    text="Proof (loop by inductive invariant, no bound) that segmentController.create(ts) returns a segment whose time range "
         "contains ts — an existing one or a newly created one — whenever the controller's segments are sorted, half-open and "
         "non-overlapping (postconditions found / contains-low / contains-high, taken from the property: a point is filed under the segment that "
         "contains its timestamp), with the calendar grid abstracted to its only used facts (Standard(t) <= t < NextTime(Standard(t))); "
         "TimeRange.Contains is proved to be the half-open interval test [Start, End). The check found and fixed a genuine defect here "
         "(known_findings.json, 24885fe).",
    note=STORAGE_NOTE + "Assumed: IntervalRule.Standard/NextTime satisfy Standard(t) <= t < NextTime(Standard(t)) (calendar "
         "arithmetic is opaque), segmentController.load returns a segment with the requested range. Not decided: the write path above "
         "it (CreateSegmentIfNotExist's lookup, tsTable/shard selection, series-index placement — proto-typed engines), concurrent creates.",
    technique="contract-based deductive verification: VCs from the typed Go AST (govc), quantified loop invariant over the sorted "
              "segment list, uninterpreted calendar function with its stated axioms; obligations discharged by z3/cvc5",
    design="§3 C06")

CLAIMED["C08"] = dict(
    text="Proof of the no-false-negative contract of the skipping-index structures in pkg/filter, for all inputs: (1) BloomFilter "
         "(bit-vector semantics, hash functions uninterpreted): Add sets all 10 probe bits of the item and only ever turns bits on "
         "(loop invariant), MightContain/ContainsAll answer exactly 'all probes set', and a lemma shows that turning more bits on "
         "keeps every earlier item present - together: an item added since the last resize is never reported absent; (2) "
         "DictionaryFilter: for scalar tags MightContain/ContainsAll answer 'absent' only if no stored value equals the item; for "
         "int64-array tags extractElements never answers false when every query value is one of the 8-byte cells; and every lookup "
         "leaves the stored (cached, shared) dictionary values byte-for-byte intact - the postcondition that exposed a genuine "
         "defect (fixed, 7d51dee); (3) vararray.UnmarshalVarArray: memory safe and terminating on arbitrary bytes, makes progress, "
         "changes nothing outside the decoded entry and nothing at all when the buffer holds no escape byte; (4) part-level time "
         "pruning of the measure engine (snapshot.getParts): every selected part's time range meets the query range, earlier "
         "results are kept and the count is exact (unbounded); that no part meeting the range is discarded is a BOUNDED stand-in "
         "(snapshots of at most 3 parts, complete unrolling), labelled bounded and not counted as proved; the stream engine's "
         "getParts is proved to the same contract.",
    note=COMMON_NOTE + "Assumed: xxhash.Sum64 deterministic; the unsafe 8-byte view of the hash variable is a deterministic function "
         "of its value; sync/atomic operations as single sequential steps (no interleaving of concurrent Adds); bytes.Equal kept as an "
         "uninterpreted relation; bytes.IndexByte/Clone contracts; bit sets smaller than 2^57 words; len(bits) > 0 is a precondition "
         "of Add/MightContain (callers resize first; Add after Reset without ResizeBits would divide by zero). Not decided: "
         "no-false-negative for string-array tags at element level (needs the decode semantics of escaped entries), DictionaryFilter."
         "MightContain on array tags (returns false by design; callers are expected to use ContainsAll), the callers in "
         "stream/sidx/trace (tag_filter.go, tag_filter_op.go: proto-typed), min/max and time-range pruning in the engines, the "
         "inverted index (bluge) and predicate compilation in pkg/query/logical - so 'identical with or without index' is decided "
         "only for these pruning structures themselves.",
    technique="contract-based deductive verification: VCs from the typed Go AST (govc); bit-vector obligations with an inductive "
              "loop invariant for the bloom filter, quantified invariants over nested byte slices for the dictionary filter; "
              "obligations discharged by z3/cvc5",
    design="§3 C08")

CLAIMED["C09"] = dict(
    text="Proof that limit/offset is exactly a contiguous window of the ordered input for the two lazy limit operators: with the "
         "input iterator modelled as a ghost cursor (pos = items delivered, done = exhausted; Next assumed to advance by one or "
         "report exhaustion), measure limitIterator.Next and trace traceLimitIterator.Next deliver, as their k-th item, input item "
         "offset+k; never more than limit items (trace: limit 0 = unlimited); skip nothing inside the window; and report the end "
         "only when the input is exhausted or the window is full - for every uint32/int offset and limit and any number of calls "
         "(the contracts are inductive across calls: the synchronisation invariant between the operator's counter and the cursor "
         "is both required and re-established). For the ordered secondary index: QueryResponseHeap.mergeWithHeap (the k-way merge "
         "behind both sidx query interfaces) returns its keys in the requested order - ascending, or descending by walking each "
         "ascending shard response from its end - with at most `limit` rows and the four parallel columns aligned (loop invariants: "
         "result ordered; its last key precedes the current key of every cursor still in the heap; the top cursor is minimal/"
         "maximal), and Less/Swap are exactly the comparison and exchange container/heap relies on. The check found and fixed a genuine defect (window restart when offset+limit "
         "exceeds MaxUint32, 3ce76e1, see known_findings.json).",
    note=COMMON_NOTE + "Assumed: the iterator interface contract (ghost cursor); container/heap's Pop / Fix (they keep exactly the "
         "in-heap cursors, whole and non-nil, and restore a top that is minimal under this heap's Less - stated with a ghost "
         "in-heap flag per cursor; their comparability preconditions are proved at every call). Narrow claim, said plainly: that "
         "the sidx merge returns EVERY matching entry exactly once (no loss, no duplicate) is not proved (needs multiset "
         "reasoning), nor are the wrappers that build the heap (heap.Init), the streaming interface's loops (channels), the other "
         "merge heaps (pkg/iter/sort, stream/measure result heaps), the stream limit operator (proto elements), distributed merge "
         "(dquery) and the inverted-index sort (bluge).",
    technique="contract-based deductive verification with ghost cursors on iterator interfaces: VCs from the typed Go AST (govc), "
              "call-by-contract on interface methods, loop invariants; obligations discharged by z3/cvc5",
    design="§3 C09")

MEASURE_NOTE = (COMMON_NOTE + "The measure engine package does not compile in this tree (generated protobuf code absent); its "
                "functions are type-checked by go/packages with errors tolerated and only functions whose bodies are fully typed "
                "are put under contract. Assumed: appendTagFamilies / fullFieldAppend / fastFieldAppend touch only the target's "
                "column headers (nested column slices are not modelled). ")

CLAIMED["C02"] = dict(
    text="Proof, for the measure write/merge kernels, of the facts version resolution rests on: dataPoints.Less is exactly the "
         "lexicographic order (series asc, timestamp asc, version DESC) and a lemma shows it is a strict weak order whose "
         "equivalence classes are equal (series, timestamp, version) triples and that within a (series, timestamp) run the row with "
         "the highest version sorts first - so keeping the first row of each run keeps the highest version; dataPoints.skip removes "
         "exactly row i from every parallel column (rows before unchanged, rows after shifted by one); blockPointer.append / appendAll "
         "copy exactly rows [idx, offset) of the source's timestamps and versions to the end of the target, keep every earlier target "
         "row, leave the source untouched and never trip the internal offset assertion; updateMetadata sets min/max to the first/last "
         "timestamp.",
    note=MEASURE_NOTE + "Narrow claim, said plainly: the three places that actually resolve versions - the dedup loop of "
         "memPart.mustInitFromDataPoints, mergeTwoBlocks and queryResult.merge - are NOT proved. For mergeTwoBlocks the full contract "
         "(strictly increasing output, highest version wins, with all loop invariants) is written and about 1480 of its 1530 "
         "obligations discharge (memory safety, every append precondition, frames, cursor discipline), but the ~40 obligations that "
         "carry the property time out; it stays in the repository under the unclaimed section tag WIP-C02 and is not part of this "
         "check. mustInitFromDataPoints' contract is parked in /verif/notes; the result heap needs a container/heap model. So 'a "
         "query never returns two points with the same series and timestamp' is not decided end to end; only the order and "
         "row-copy primitives it is built from are.",
    technique="contract-based deductive verification: VCs from the typed Go AST (govc), quantified postconditions over parallel "
              "column slices; obligations discharged by z3/cvc5",
    design="§3 C02")

CLAIMED["C03"] = dict(
    text="Proof of the row-copy primitive every measure block merge and flush is built from: blockPointer.append / appendAll append "
         "exactly rows [idx, offset) of the source block (timestamps and versions, element by element, in order) to the target, "
         "keep all earlier target rows, do not modify the source and keep the two columns aligned; dataPoints.skip drops exactly "
         "one row from all parallel columns; blockPointer.updateMetadata recomputes the time bounds from the rows. These are the "
         "steps by which merged output rows are produced from input rows, for all block sizes and cursor positions.",
    note=MEASURE_NOTE + "Narrow claim, said plainly: that merging yields the version-resolved UNION of its inputs (mergeTwoBlocks, "
         "mergeBlocks' k-way reader, blockWriter's 8192-row / 2 MiB splitting), that snapshot.merge/remove swap exactly the merged "
         "parts (maps are not modelled by govc), conflict-column renaming, and stream / trace / sidx merges are NOT decided; "
         "'before, during and after any number of flushes and merges' is a history property outside function contracts.",
    technique="contract-based deductive verification: VCs from the typed Go AST (govc), quantified postconditions and frames over "
              "parallel column slices; obligations discharged by z3/cvc5",
    design="§3 C03")

CLAIMED["C19"] = dict(
    text="Proof (sequential semantics, every path incl. all error paths) of the pinning discipline of file snapshots: "
         "storage segment.snapshotInto skips a segment flagged for deletion, hands a closed segment (index == nil) to the "
         "hard-link copy only while it is closed and leaves its index nil and its reference count untouched ('never reopens or "
         "disturbs closed segments'), hands an open segment to the live copy only while it holds an extra reference and with the "
         "index captured under the lock, and gives that reference back exactly once; database.TakeFileSnapshot reopens no "
         "segment and leaves no segment pinned, whatever snapshotInto returns; measure tsTable.TakeFileSnapshot pins the current "
         "snapshot before the first part is linked, writes the manifest of exactly that pinned snapshot while still pinned, gives "
         "the pin back exactly once on every path, and removes the destination on failure (ghost flag on MustRMAll) but never on "
         "success; the manifest written by createMetadata lists every part of the snapshot it is given, in order; snapshot.decRef "
         "releases every part exactly once when (and only when) the last holder leaves. The stream engine's TakeFileSnapshot / "
         "createMetadata and the trace engine's createMetadata are proved to the same contracts.",
    note=STORAGE_NOTE + "Also assumed: CreateHardLink/SyncPath/CreateFile, createMetadata (manifest I/O), the series-index and "
         "shard-table snapshot calls inside snapshotOpen, partWrapper.decRef (spawns a goroutine). Narrow claim, said plainly: that "
         "the copy OPENS as a valid database and answers as one snapshot state (recovery code, bluge), that every part listed in "
         "the manifest is present (the manifest also lists in-memory parts that are not linked; the loader intersects with the "
         "directories present), hard-link semantics, interleavings with flush/merge/retention, and the trace engine's "
         "TakeFileSnapshot (ranges over a map of secondary indexes; maps are not modelled) and the sidx snapshots are NOT decided.",
    technique="contract-based deductive verification with ghost state and caller-side at-call assertions: VCs from the typed Go AST "
              "(govc) incl. deferred closures over named results; obligations discharged by z3/cvc5",
    design="§3 C19, §7.2")

CLAIMED["C01"] = dict(
    text="Narrow claim: proof that the per-value codecs stored tag and field values pass through are bit-exact inverses - the "
         "8-byte forms of int64 and float64 values (Int64ToBytes/BytesToInt64 with the inverse lemma, Float64ToBytes/BytesToFloat64 "
         "on raw IEEE bits, the 2-byte exponent form), all in exact bit-vector semantics - and that the scaled-decimal list codec "
         "for float64 columns and tags reports success only if the decoder gives every value back (Go's float ==), otherwise "
         "refuses so that callers take the plain fallback. The latter exposed a genuine defect (one in five arbitrary doubles "
         "altered by one ulp on write; fixed, c5cfd2b). These obligations are a subset of C11/C12's, re-checked under this id.",
    note=COMMON_NOTE + "Said plainly: the property itself - acknowledged write -> query returns exactly what was written, nothing "
         "else - is NOT decided. The write path, ack, column/tag framing (banyand/internal/encoding tag_encoder.go, measure/stream/"
         "trace column.go), block splitting, projection and the query path are proto-typed packages; and composing list codecs "
         "through buffer copies needs a theory of sequence contents that govc's array-window model does not have (uninterpreted "
         "functions over (array, offset, length) are not functions of the contents). Known deviation left in the code and pinned by "
         "the repository's own TestEncodeZeroVariants: -0.0 is stored as +0.0 by the decimal codec. The decoder arithmetic is "
         "uninterpreted (decOne).",
    technique="contract-based deductive verification: VCs from the typed Go AST (govc), QF_BV obligations for the value forms, "
              "quantified loop invariant for the verify-or-refuse loop; obligations discharged by z3/cvc5",
    design="§3 C01, §7.2")

# Extensions built after the first complete pass (DESIGN.md §7.6). "Fragment" contracts verify ONE loop of a function from an
# arbitrary state; "thin" (only-stated) contracts state statement-level assertions for every execution that reaches them and
# generate no safety obligations; both are labelled as such in the evidence (trusted_base) and are narrower than a full
# functional contract of the function.
ADDENDA = {
    "C12": "Extended to the series-key field codec of pkg/pb/v1: marshalEntityValue writes exactly the escaped value plus one "
           "delimiter (position map escLen, a recursive spec function with induction lemmas), and unmarshalEntityValue, given any "
           "field written for a value v, returns v and exactly the rest (inverse direction, for every v via a ghost) - hence "
           "concatenated keys decode back and two value lists never share a key. Series.Marshal itself stays out of reach (proto).",
    "C11": "Extended: variable-length integers survive encode+decode exactly for all 2^64 values (real encoder and decoder "
           "composed in a verif-tagged harness, both inlined, loops unrolled to the 10-byte maximum with unwinding assertions: a "
           "complete proof); the integer-list mode choice (Int64ListToBytes/isDelta) reports const / delta-const only for lists "
           "of that shape and never a mode the decoder refuses; const / delta-const decode values; a block tagged plain stores "
           "its length in one byte and its source; BytesBlockDecoder never rewrites bytes it has handed out.",
    "C01": "Extended: the escaped array-element codec on the write path of measure and stream (marshalVarArray / "
           "unmarshalVarArray) and pkg/encoding/vararray.MarshalVarArray under the same exact contract as C12's field codec, "
           "including the inverse direction.",
    "C16": "Extended: the node table stays ascending across AddNode / RemoveNode (so it is a function of the set of live "
           "nodes); operands read from absent generated code are arbitrary values.",
    "C04": "Extended: WriteAtomic opens its temporary sibling with O_CREATE|O_TRUNC; MustFlushAtomic returns only after "
           "rename + directory fsync (interface-level contract); fragment contracts for the manifest lookup of loadSnapshot in "
           "the three engines (a part is an orphan only if NO manifest entry names it, no sortedness assumed).",
    "C13": "Extended: dropped-trace-id set lookup (sound on any well-formed table; complete for every recorded id whose probe "
           "path is occupied - buildIndex itself not under contract); the merged part's time range covers every input (trace and "
           "sidx, fragment contracts); sidx mergeBlocks never resets a pending block holding unwritten rows (thin typestate "
           "contract); trace searchPBM drops only primary blocks wholly before the wanted trace id.",
    "C03": "Extended: conflict-column / conflict-tag renaming renames exactly the conflicting columns in every tag family "
           "(measure, stream, trace; full contracts with maps); the set of parts a merge removes is exactly the ids of the parts "
           "the policy chose (fragment contracts, three engines); sidx merged time range (fragment).",
    "C02": "Extended by thin statement-level contracts of the version rule at its three sites: batch build "
           "(mustInitFromDataPoints: the remembered (series, timestamp) is the previous surviving row's; only a repeat is "
           "skipped and a repeat is never kept), part merge (mergeTwoBlocks: the left duplicate is kept only if not older, the "
           "right one copied only if strictly newer) and query merge (queryResult.merge: append only a new timestamp, overwrite "
           "only the same timestamp with a higher version). The full functional contracts of the last two remain parked (WIP).",
    "C06": "Extended: on reload a segment gets exactly the end recorded in its metadata when there is one (thin contract on the "
           "loadSegments callback, run from an arbitrary state).",
    "C07": "Extended: getRetentionDeadline is now proved (not assumed) to be exactly clock.Now() - TTL in nanoseconds "
           "(estimatedDuration proved; the clock is a ghost), and SelectSegments' hidden-segment clause is stated against it.",
    "C08": "Extended: searchPBM (measure, stream) drops only primary blocks wholly before the wanted series; sidx Having uses the "
           "scalar MightContain only for scalar tags (thin).",
    "C09": "Extended (thin): a sidx block cursor joins the merge on the first / last of ITS loaded rows; an element is marked "
           "seen only if it is inside the key range.",
    "C19": "Extended (thin): the hard-link walk prunes (SkipDir) only for a rejected directory, never for a rejected file.",
}
ADDENDA2 = {
    "C03": "Also: the part-wide time range kept by the measure block writer only widens (thin); conflicting-type detection "
           "keeps its type sets under the decoded column name (thin); stream getDisjointParts keeps the group maximum (fragment).",
    "C04": "Also: mustWriteMetadata (three engines) returns only after an atomic durable replace; the stream introducers persist "
           "the manifest of the snapshot they just published (thin); trace loadSnapshot loads secondary-index parts for the "
           "manifest's list (thin).",
    "C05": "Also (thin, stream): the introducers publish a new snapshot and persist THAT snapshot's manifest.",
    "C13": "Also: retainAllVerdict keeps every trace (full); the fragment guard asks every outside part that overlaps the "
           "grace-widened window (fragment, ghost flag on the filters); every raw block's trace id reaches the part's bloom "
           "filter (thin).",
    "C14": "Also (thin): a failed segment open leaves the segment closed.",
    "C19": "Also: trace TakeFileSnapshot's link loop looks at every file-backed part (fragment); in snapshotInto the segment mutex "
           "is released early only on the skip path or after pinning an open segment (thin). Also (thin, banyand/backup): in backupSnapshot's walk "
           "callback, a key taken out of the set of remote files (whose remainder is deleted as orphans) is a key just found in "
           "that set - a clause over the operands of the built-in delete, naming no local; backup.contains is exactly membership "
           "(full). In CreateHardLink and its walk callback every success answer (return nil) is reached with no error pending "
           "(thin). restoreByName removes a local file only if the backup does not hold it and fetches a remote file only when "
           "it is not among the local files (thin, through the contract of contains); backupSnapshot deletes remote orphans only "
           "after the walk and every upload succeeded (thin).",
}
for _k, _v in ADDENDA2.items():
    ADDENDA[_k] = (ADDENDA.get(_k, "") + " " + _v).strip()
for _k, _v in ADDENDA.items():
    CLAIMED[_k]["text"] = CLAIMED[_k]["text"] + " " + _v

NOT_APPLICABLE = {
    "C15": "equivalence of two whole query pipelines over generated proto types: translation validation, no function contract states it (DESIGN.md §5)",
    "C17": "whole-cluster equivalence and gRPC/proto-typed transfer code with no type information in this tree (DESIGN.md §5)",
    "C18": "history/convergence property over an external inverted-index document store driven by proto messages (DESIGN.md §5)",
    "C20": "needs the semantics of a reflection-driven parser and proto-typed binder; no contract within reach (DESIGN.md §5)",
}
PENDING = "check not built yet (planned, DESIGN.md §3)"

ALL = ["C%02d" % i for i in range(1, 21)]

checks = []
for pid in ALL:
    if pid not in CLAIMED:
        continue
    c = CLAIMED[pid]
    checks.append({
        "property_id": pid,
        "quick_cmd": "./check %s quick" % pid,
        "thorough_cmd": "./check %s thorough" % pid,
        "evidence_file": "/verif/evidence/%s.json" % pid,
        "replay_cmd_template": "bin/govc replay {path}",
        "engine": "govc",
        "level_claimed": {"category": "proof", "text": c["text"], "design_ref": c["design"]},
        "level_note": c["note"],
        "technique": c["technique"],
    })

na = []
for pid in ALL:
    if pid in CLAIMED:
        continue
    na.append({"property_id": pid, "reason": NOT_APPLICABLE.get(pid, PENDING)})

manifest = {
    "version": 1,
    "setup_cmd": "cd /verif/govc && GOFLAGS=-mod=vendor GOPROXY=off go build -o /verif/bin/govc .",
    "hooks": {
        "guard": "verif",
        "enable": "contract files zz_contracts_verif.go carry //go:build verif and contain only comments; pkg/encoding/zz_harness_verif.go (same tag) holds two round-trip compositions of the real var-int encoder and decoder that only the verifier reads; govc loads packages with -tags=verif",
        "baseline_off_cmd": "cd /repo && GOFLAGS=-mod=mod GOPROXY=off go test -json -vet=off -count=1 -timeout 25m ./...",
        "source_commits": hook_commits,
        "add_only": True,
    },
    "engines": [{
        "name": "govc",
        "path": "/verif/govc",
        "serves_properties": sorted(CLAIMED),
        "kind_free_text": "verification-condition generator for a stated Go subset (typed AST, forward symbolic execution with loop cutting "
                          "and call-by-contract) + SMT back ends z3 4.8.12, z3 5.1.0, cvc5 1.0.3; counterexample replay on the real code",
    }],
    "checks": checks,
    "notes": "Contracts live in /repo as comment-only files zz_contracts_verif.go (build tag verif). known_findings.json lists fixed and open findings.",
    "not_applicable": na,
}
json.dump(manifest, open("/verif/MANIFEST.json", "w"), indent=1)
print("claimed:", sorted(CLAIMED), "hooks:", hook_commits)
