#!/bin/bash
# Applies every behaviour-preserving refactor stored under harmless/ to /repo's working tree (never committed), runs the
# quick check of the property whose contracts cover the touched function, and restores the tree. A VIOLATION here is a
# false alarm of the machinery. Usage: tools/run_harmless.sh [ids...]
set -u
cd /verif
if [ -n "$(git -C /repo status --porcelain)" ]; then echo "/repo has uncommitted changes; refusing"; exit 2; fi
ids=("$@"); if [ ${#ids[@]} -eq 0 ]; then ids=($(ls -d harmless/*/ | xargs -n1 basename)); fi
bad=0
{
echo "| refactor | property checked | violations | what |"
echo "|---|---|---|---|"
for id in "${ids[@]}"; do
  prop=$(cat harmless/$id/property)
  git -C /repo apply /verif/harmless/$id/patch.diff || { echo "| $id | $prop | patch does not apply | |"; bad=1; continue; }
  out=$(GOVC_NO_EVIDENCE=1 ./check $prop quick 2>&1)
  git -C /repo checkout -- .
  n=$(echo "$out" | grep -c '^VIOLATION')
  what=$(head -1 harmless/$id/README.md | sed 's/^# *//' | cut -c1-120)
  echo "| $id | $prop | $n | $what |"
  [ $n -eq 0 ] || bad=1
done
} | tee harmless/RESULTS.md
exit $bad
