#!/bin/bash
# Applies every stored seeded change to /repo (working tree only, never committed), runs the registered quick check of the
# property it breaks, records which obligations reported it, and restores the tree. Usage: tools/run_seeds.sh [seed-id ...]
# Writes seeded/<id>/result.json and seeded/MATRIX.md. Exit 1 if a seed is not caught.
set -u
cd /verif
if [ -n "$(git -C /repo status --porcelain)" ]; then echo "/repo has uncommitted changes; refusing"; exit 2; fi
seeds=("$@")
if [ ${#seeds[@]} -eq 0 ]; then seeds=($(ls -d seeded/*/ | xargs -n1 basename)); fi
miss=0
for id in "${seeds[@]}"; do
  d=seeded/$id
  prop=$(jq -r .property $d/meta.json)
  if ! git -C /repo apply --check /verif/$d/patch.diff 2>/dev/null; then echo "$id: patch does not apply"; miss=1; continue; fi
  git -C /repo apply /verif/$d/patch.diff
  out=$(GOVC_NO_EVIDENCE=1 ./check $prop quick 2>&1); rc=$?
  git -C /repo checkout -- .
  viol=$(echo "$out" | grep -c '^VIOLATION')
  obls=$(echo "$out" | grep '^VIOLATION' | sed -E 's/.*obligation=([^ ]+).*/\1/' | jq -R . | jq -s .)
  confirmed=$(echo "$out" | grep '^VIOLATION' | grep -vc 'no-failing-input-found')
  jq -n --arg id "$id" --arg prop "$prop" --argjson rc $rc --argjson n $viol --argjson obls "$obls" --argjson conf $confirmed \
     '{seed_id:$id, property:$prop, check:("./check "+$prop+" quick"), exit_code:$rc, violations:$n, replayed_counterexamples:$conf, failed_obligations:$obls}' > $d/result.json
  if [ $rc -eq 1 ] && [ $viol -gt 0 ]; then echo "$id: CAUGHT by $prop ($viol obligations, $confirmed replayed)"; else echo "$id: MISSED by $prop (rc=$rc)"; miss=1; fi
done
{
  echo "| seed | property | caught | failed obligations (first 3) | replayed counterexample |"
  echo "|---|---|---|---|---|"
  for r in seeded/*/result.json; do
    jq -r '"| \(.seed_id) | \(.property) | \(if .exit_code==1 and .violations>0 then "yes" else "NO" end) | \(.failed_obligations[0:3] | map(sub("^.*/(?<p>[^/]+/[^/]+)$"; "\(.p)")) | join("<br>")) | \(.replayed_counterexamples) |"' $r
  done
} > seeded/MATRIX.md
[ -z "$(git -C /repo status --porcelain)" ] || { echo "/repo not clean after run!"; exit 2; }
exit $miss
